"""C08, floating-point part: the real DCMotor methods on IEEE-754 double proxies.
Bug hunting only (stated as such): a query that ends unknown is reported as not decided."""
from __future__ import annotations

import math
import time
import traceback

import z3

from symx import fp, stubs
from symx.fp import SF, FPEngine, FT


def _frame_of(e):
    tb = e.__traceback__
    name = None
    while tb is not None:
        fn = tb.tb_frame.f_code.co_filename
        if '/gearpy/' in fn:
            name = tb.tb_frame.f_code.co_qualname
        tb = tb.tb_next
    return name


class FPDeadZone:
    name = 'fp:dead_zone'

    def __init__(self, tier='quick', part=0, nparts=1):
        self.tier = tier
        self.part, self.nparts = part, nparts
        self.name = 'fp:dead_zone:%d/%d' % (part, nparts)
        self.cap = 60 if tier == 'quick' else 240

    def _build(self, vals=None, env=None):
        import gearpy.units as gu
        import gearpy.mechanical_objects as mo
        g = (lambda n, **k: vals[n]) if vals is not None else (lambda n, **k: env.real(n, **k))
        # the hazard lives in (i0, imax, D): the torque scale, the no-load speed and the speed are concrete
        Tmax, w0, w = 0.02, 1000.0, 300.0
        i0 = g('i0', lo=1e-3, hi=1e3)
        imax = g('imax', lo=1e-3, hi=1e3)
        D = g('D', lo=-1.0, hi=1.0)
        if env is not None:
            env.assume(z3.fpLT(FT(i0), FT(imax)))
        m = mo.DCMotor(name='m', inertia_moment=gu.InertiaMoment(1, 'kgm^2'), no_load_speed=gu.AngularSpeed(w0, 'rad/s'),
                       maximum_torque=gu.Torque(Tmax, 'Nm'), no_load_electric_current=gu.Current(i0, 'A'),
                       maximum_electric_current=gu.Current(imax, 'A'))
        m.pwm = D
        m.angular_speed = gu.AngularSpeed(w, 'rad/s')
        return m, dict(i0=i0, imax=imax, D=D)

    def run(self, env):
        m, P = self._build(env=env)
        m.compute_torque()
        m.compute_electric_current()
        return dict(torque=m.driving_torque.value, current=m.electric_current.value, **P)

    def concrete(self, vals):
        try:
            m, P = self._build(vals=vals)
            m.compute_torque()
            m.compute_electric_current()
            t, c = m.driving_torque.value, m.electric_current.value
            return 'ok', (t, c)
        except Exception as e:  # noqa
            return 'exc', e

    def process(self, want_functions=False):
        t0 = time.time()
        eng = FPEngine(max_paths=300, max_seconds=120)
        with stubs.installed():
            results = eng.explore(self.run)
        R = dict(harness=self.name, paths=len(results), ok_paths=0, exc_paths=0, pruned=0, unsupported=0, domain=0,
                 obligations=0, discharged=0, discharged_exact=0, discharged_robust=0, violations=[], inconclusive=[],
                 validated=0, validation_boundary=0, triggers={}, samples=[], functions=[], exc_classes={},
                 stats=dict(queries=0, solver_s=0.0, unknown=0, branches=eng.stats['branches']), extra={})
        undecided = []
        if not eng.exhausted:
            R['inconclusive'].append('FP exploration budget exhausted')
        for ridx, res in enumerate(results):
            if ridx % self.nparts != self.part:
                continue
            if res.status in ('pruned', 'unsupported'):
                R['inconclusive'].append('FP path %s: %s' % (res.status, res.exc))
                continue
            if res.status == 'exc':
                R['exc_paths'] += 1
                e = res.exc
                where = _frame_of(e)
                if isinstance(e, ValueError) and where and where.endswith('__init__'):
                    continue        # documented constructor rejections (infeasible under the assumptions anyway)
                if isinstance(e, ValueError) and where and 'pwm' in where:
                    continue
                # any other exception must be infeasible
                R['obligations'] += 1
                ts = time.time()
                r, vals, who = fp.solve_race(res.path, eng._vars, self.cap)
                R['stats']['queries'] += 1
                R['stats']['solver_s'] += time.time() - ts
                if r == 'unsat':
                    R['discharged'] += 1
                    R['discharged_exact'] += 1
                elif r == 'sat':
                    st, got = self.concrete(vals)
                    if st == 'exc' and type(got) is type(e):
                        key = 'fp:%s:%s' % (type(e).__name__, where)
                        if key not in [v['key'] for v in R['violations']]:
                            R['violations'].append(dict(key=key, harness=self.name, describe=dict(mode='FP'),
                                                        obligation='fp.no_undocumented_exception',
                                                        failed=['fp.no_undocumented_exception'], inputs=vals,
                                                        detail='%s in %s: %s' % (type(e).__name__, where, e),
                                                        outcome='exc:' + type(e).__name__))
                    else:
                        R['inconclusive'].append('FP model for %s in %s did not reproduce: %r' % (type(e).__name__, where, vals))
                else:
                    R['stats']['unknown'] += 1
                    undecided.append('%s in %s' % (type(e).__name__, where))
                continue
            R['ok_paths'] += 1
            rec = res.value
            # torque exactly zero inside the dead zone |D| <= fl(i0/imax)
            R['obligations'] += 1
            pm = z3.fpDiv(fp.RNE, FT(rec['i0']), FT(rec['imax']))
            dead = z3.fpLEQ(z3.fpAbs(FT(rec['D'])), pm)
            tq = rec['torque']
            if isinstance(tq, SF):
                claim = z3.Implies(dead, z3.fpIsZero(tq.t))
            else:
                claim = z3.Implies(dead, z3.BoolVal(tq == 0))
            ts = time.time()
            r, vals, who = fp.solve_race(res.path + [z3.Not(claim)], eng._vars, self.cap)
            R['stats']['queries'] += 1
            R['stats']['solver_s'] += time.time() - ts
            if r == 'unsat':
                R['discharged'] += 1
                R['discharged_exact'] += 1
                R['triggers']['fp.dead_zone_torque_exactly_zero'] = R['triggers'].get('fp.dead_zone_torque_exactly_zero', 0) + 1
            elif r == 'sat':
                st, got = self.concrete(vals)
                if st == 'ok' and got[0] != 0 and abs(vals['D']) <= vals['i0'] / vals['imax']:
                    R['violations'].append(dict(key='fp:dead_zone_torque_nonzero', harness=self.name, describe=dict(mode='FP'),
                                                obligation='fp.dead_zone_torque_exactly_zero', failed=['fp.dead_zone_torque_exactly_zero'],
                                                inputs=vals, detail='torque %r inside the dead zone' % (got[0],), outcome='ok'))
                else:
                    R['inconclusive'].append('FP model for dead-zone torque did not reproduce: %r' % (vals,))
            else:
                R['stats']['unknown'] += 1
                undecided.append('dead-zone torque')
            if len(R['samples']) < 2:
                R['samples'].append(dict(harness=self.name, status='ok', decisions=len(res.decisions), mode='Float64'))
        # FP part is bug hunting only: undecided queries are recorded, not turned into a verdict
        R['extra']['fp_undecided'] = undecided[:12]
        R['extra']['fp_undecided_count'] = len(undecided)
        R['wall_s'] = time.time() - t0
        return R

    def replay(self, data):
        st, got = self.concrete(data['inputs'])
        print('replay FP witness:', st, repr(got))
        if st == 'exc' and not isinstance(got, ValueError):
            print('VIOLATION property=C08 replay=<given>')
            return 1
        return 0
