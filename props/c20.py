"""C20  A powertrain is exactly the drive chain reachable from its motor.

Sequences of relation declarations (including failing ones and re-declarations
that re-route the chain) are executed on real elements whose names are symbolic
strings (all equality patterns); the oracle walks its own model of the `drives`
links."""
from __future__ import annotations

import random

import z3

from symx import core
from symx.core import T
from symx.harness import HarnessBase, Batch
from symx.ob import holds
from symx.sstr import SStr

ID = 'C20'

POOL = [('M', 'motor'), ('F', 'flywheel'), ('A', 'spur'), ('B', 'spur'), ('C', 'spur'), ('W', 'worm'), ('H', 'wheel'),
        ('G', 'flywheel'), ('V', 'worm'), ('K', 'wheel')]


class Assemble(HarnessBase):
    validate_max = 6
    max_paths = 6000

    def __init__(self, seq, post=(), idx=0):
        self.seq = tuple(seq)      # ((func, master, slave, arg), ...)
        self.post = tuple(post)    # declarations made after assembly
        self.name = 'assemble:%d:%s' % (idx, '>'.join('%s(%s,%s)' % (f[0], a, b) for f, a, b, _ in self.seq))

    def describe(self):
        return dict(declarations=[list(s) for s in self.seq], after_assembly=[list(s) for s in self.post])

    def finding_key(self, ob, values):
        return 'assemble:%s' % ob.family

    def _elements(self, env):
        import gearpy.mechanical_objects as mo
        import gearpy.units as gu
        J = gu.InertiaMoment(1, 'kgm^2')
        used = {x for _, a, b, _ in self.seq + self.post for x in (a, b)} | {'M'}
        E = {}
        ids = {}
        for tag, kind in POOL:
            if tag not in used:
                continue
            if env.symbolic:
                iv = env.eng.ivar('name_' + tag)
                env.assume(iv >= 1)
                nm = SStr(tag, iv)
                ids[tag] = iv
            else:
                k = int(env.values.get('name_' + tag, 1))
                nm = 'n%d' % k
                ids[tag] = z3.IntVal(k)
            if kind == 'motor':
                E[tag] = mo.DCMotor(name=nm, inertia_moment=J, no_load_speed=gu.AngularSpeed(100, 'rad/s'),
                                    maximum_torque=gu.Torque(1, 'Nm'))
            elif kind == 'flywheel':
                E[tag] = mo.Flywheel(name=nm, inertia_moment=J)
            elif kind == 'spur':
                E[tag] = mo.SpurGear(name=nm, n_teeth=20, inertia_moment=J)
            elif kind == 'worm':
                E[tag] = mo.WormGear(name=nm, n_starts=1, inertia_moment=J, helix_angle=gu.Angle(10, 'deg'),
                                     pressure_angle=gu.Angle(20, 'deg'))
            elif kind == 'wheel':
                E[tag] = mo.WormWheel(name=nm, n_teeth=30, inertia_moment=J, helix_angle=gu.Angle(10, 'deg'),
                                      pressure_angle=gu.Angle(20, 'deg'))
        return E, ids

    @staticmethod
    def _declare(E, f, a, b, arg):
        from gearpy.utils import add_gear_mating, add_worm_gear_mating, add_fixed_joint
        try:
            if f == 'joint':
                add_fixed_joint(master=E[a], slave=E[b])
            elif f == 'gear':
                add_gear_mating(master=E[a], slave=E[b], efficiency=arg)
            else:
                add_worm_gear_mating(master=E[a], slave=E[b], friction_coefficient=arg)
            return True
        except (TypeError, ValueError, ZeroDivisionError):
            return False

    def run(self, env):
        from gearpy.powertrain import Powertrain
        E, ids = self._elements(env)
        tags = {id(o): t for t, o in E.items()}
        drives = {}           # the oracle's own model of the 'drives' links
        flagged = {}          # worm tag -> self-locking flag the accepted mating must have set (f > cos a tan b)
        import math
        thr = math.cos(math.radians(20)) * math.tan(math.radians(10))
        rec = dict(accepted=[])
        for f, a, b, arg in self.seq:
            ok = self._declare(E, f, a, b, arg)
            rec['accepted'].append(ok)
            if ok:
                drives[a] = b
                if f == 'worm':
                    flagged[a if POOL_KIND[a] == 'worm' else b] = arg > thr
        # oracle walk
        chain, seen, cyc = ['M'], {'M'}, False
        while chain[-1] in drives:
            nxt = drives[chain[-1]]
            if nxt in seen:
                cyc = True
                break
            chain.append(nxt)
            seen.add(nxt)
        rec['cyclic'] = cyc
        rec['oracle_chain'] = chain
        rec['oracle_locking'] = any(flagged.get(t, False) for t in chain if POOL_KIND[t] == 'worm')
        rec['name_ids'] = [ids[t] for t in chain]
        if cyc:
            return rec            # the constructor does not terminate on a cyclic graph: outside the quantifier
        try:
            pt = Powertrain(motor=E['M'])
            rec['raised'] = None
        except (ValueError, NameError, TypeError) as e:
            rec['raised'] = type(e).__name__
            return rec
        rec['elements'] = [tags.get(id(o), '?') for o in pt.elements]
        rec['is_tuple'] = isinstance(pt.elements, tuple)
        rec['self_locking'] = pt.self_locking
        # read-only
        ro = {}
        for attr, val in (('elements', ()), ('self_locking', True), ('time', [])):
            try:
                setattr(pt, attr, val)
                ro[attr] = 'assigned'
            except AttributeError:
                ro[attr] = 'AttributeError'
        rec['readonly'] = ro
        rec['elements_after_assign'] = [tags.get(id(o), '?') for o in pt.elements]
        rec['self_locking_after_assign'] = pt.self_locking
        for f, a, b, arg in self.post:
            self._declare(E, f, a, b, arg)
        rec['elements_after_post'] = [tags.get(id(o), '?') for o in pt.elements]
        rec['self_locking_after_post'] = pt.self_locking
        return rec

    def obligations(self, out):
        if not out.ok:
            return [holds('chain.no_other_exception', False, info=repr(out.exc))]
        rec = out.value
        if rec['cyclic']:
            return [holds('chain.cyclic_sequence_skipped', True)]
        obs = []
        chain = rec['oracle_chain']
        ids = rec['name_ids']
        dup = z3.Or([ids[i] == ids[j] for i in range(len(ids)) for j in range(i + 1, len(ids))]) if len(ids) > 1 \
            else z3.BoolVal(False)
        if len(chain) == 1:
            obs.append(holds('chain.motor_drives_nothing_is_ValueError', rec['raised'] == 'ValueError', info=repr(rec['raised'])))
            return obs
        if rec['raised'] == 'NameError':
            obs.append(holds('chain.NameError_iff_duplicate_names', dup))
            return obs
        if rec['raised'] is not None:
            obs.append(holds('chain.construction_succeeds', False, info=rec['raised']))
            return obs
        obs.append(holds('chain.NameError_iff_duplicate_names', z3.Not(dup), info='duplicate names accepted'))
        obs.append(holds('chain.elements_are_the_drive_chain', rec['elements'] == chain,
                         info='elements=%s oracle walk=%s' % (rec['elements'], chain)))
        obs.append(holds('chain.elements_is_a_tuple', rec['is_tuple']))
        obs.append(holds('chain.self_locking_iff_flagged_worm', rec['self_locking'] == rec['oracle_locking'],
                         info='flag=%s oracle=%s' % (rec['self_locking'], rec['oracle_locking'])))
        ro = rec['readonly']
        obs.append(holds('chain.elements_read_only', ro['elements'] == 'AttributeError' and
                         rec['elements_after_assign'] == chain, info=str(ro)))
        obs.append(holds('chain.self_locking_read_only', ro['self_locking'] == 'AttributeError' and
                         rec['self_locking_after_assign'] == rec['oracle_locking'], info=str(ro)))
        obs.append(holds('chain.later_declarations_change_nothing', rec['elements_after_post'] == chain and
                         rec['self_locking_after_post'] == rec['oracle_locking'],
                         info='after later declarations: %s' % rec['elements_after_post']))
        return obs


POOL_KIND = dict(POOL)


def _random_seq(rnd, n):
    tags = [t for t, _ in POOL]
    seq = []
    for _ in range(n):
        a, b = rnd.sample(tags, 2)
        ka, kb = POOL_KIND[a], POOL_KIND[b]
        r = rnd.random()
        if {ka, kb} == {'worm', 'wheel'} and r < 0.7:
            seq.append(('worm', a, b, rnd.choice([0.05, 0.1, 0.3, 0.6])))
        elif ka == 'spur' and kb == 'spur' and r < 0.6:
            seq.append(('gear', a, b, rnd.choice([0.9, 1, 0.5])))
        else:
            seq.append(('joint', a, b, None))
    return tuple(seq)


def _chainy_seq(rnd, n):
    """sequences biased towards building a chain from the motor, with occasional re-routing"""
    tags = [t for t, _ in POOL if t != 'M']
    rnd.shuffle(tags)
    seq, cur = [], 'M'
    for t in tags[:n]:
        ka, kb = POOL_KIND[cur], POOL_KIND[t]
        if {ka, kb} == {'worm', 'wheel'}:
            seq.append(('worm', cur, t, rnd.choice([0.05, 0.1, 0.3, 0.6])))
        elif ka == 'spur' and kb == 'spur' and rnd.random() < 0.5:
            seq.append(('gear', cur, t, 0.9))
        else:
            seq.append(('joint', cur, t, None))
        if rnd.random() < 0.8:
            cur = t
        if rnd.random() < 0.2 and len(seq) > 1:
            # re-declare an earlier master with another slave: re-routes the chain
            f, a, b, arg = rnd.choice(seq)
            other = rnd.choice([x for x in tags if x not in (a, b)])
            seq.append(('joint', a, other, None))
    return tuple(seq)


FIXED = [
    ((), ()),
    ((('joint', 'M', 'A', None),), ()),
    ((('joint', 'M', 'F', None), ('joint', 'F', 'A', None), ('gear', 'A', 'B', 0.9)), (('joint', 'B', 'C', None),)),
    ((('joint', 'M', 'A', None), ('joint', 'M', 'B', None)), (('joint', 'B', 'A', None),)),          # re-route
    ((('joint', 'M', 'W', None), ('worm', 'W', 'H', 0.6), ('joint', 'H', 'A', None)), ()),              # locking
    ((('joint', 'M', 'W', None), ('worm', 'W', 'H', 0.05), ('joint', 'H', 'A', None)), (('worm', 'W', 'H', 0.6),)),
    ((('joint', 'M', 'H', None), ('worm', 'H', 'W', 0.1), ('joint', 'W', 'A', None)), ()),              # wheel drives
    ((('joint', 'F', 'W', None), ('worm', 'W', 'H', 0.6), ('joint', 'M', 'A', None)), ()),              # flagged worm off-chain
    # two worm stages, the self-locking one first / last / both / none
    ((('joint', 'M', 'W', None), ('worm', 'W', 'H', 0.6), ('joint', 'H', 'V', None), ('worm', 'V', 'K', 0.05)), ()),
    ((('joint', 'M', 'W', None), ('worm', 'W', 'H', 0.05), ('joint', 'H', 'V', None), ('worm', 'V', 'K', 0.6)), ()),
    ((('joint', 'M', 'W', None), ('worm', 'W', 'H', 0.6), ('joint', 'H', 'V', None), ('worm', 'V', 'K', 0.6)), ()),
    ((('joint', 'M', 'W', None), ('worm', 'W', 'H', 0.05), ('joint', 'H', 'V', None), ('worm', 'V', 'K', 0.05)), ()),
    ((('joint', 'M', 'W', None), ('worm', 'W', 'H', 0.6), ('joint', 'H', 'V', None)), ()),             # unmated worm last
    ((('joint', 'M', 'A', None), ('joint', 'A', 'B', None), ('joint', 'B', 'A', None)), ()),              # cycle
    ((('joint', 'A', 'M', None), ('joint', 'M', 'F', None), ('gear', 'F', 'A', 0.9)), ()),               # failing calls
]


def specs(tier, seed):
    rnd = random.Random(seed)
    seqs = list(FIXED)
    n = 120 if tier == 'quick' else 900
    for i in range(n):
        L = rnd.randint(1, 6) if tier == 'quick' else rnd.randint(1, 13)
        s = _chainy_seq(rnd, min(L, 7)) if i % 3 else _random_seq(rnd, L)
        post = _random_seq(rnd, rnd.randint(0, 2))
        seqs.append((s, post))
    out = []
    k = 12
    for i in range(0, len(seqs), k):
        out.append(('seqs', i // k, tuple(seqs[i:i + k])))
    return out


def build(sp):
    _, i, seqs = sp
    return Batch('seqs:%d' % i, [Assemble(s, p, idx=i * 100 + j) for j, (s, p) in enumerate(seqs)])


JOB_CAP = {'quick': 600, 'thorough': 1800}
REQUIRED_TRIGGERS = {'quick': ('chain.elements_are_the_drive_chain', 'chain.NameError_iff_duplicate_names',
                               'chain.motor_drives_nothing_is_ValueError', 'chain.self_locking_iff_flagged_worm',
                               'chain.elements_read_only', 'chain.self_locking_read_only',
                               'chain.later_declarations_change_nothing', 'chain.elements_is_a_tuple')}
BOUNDS = {
    'quick': '15 hand-written (incl. two worm stages with the self-locking one first/last/both/none) + 120 seeded sequences of 1..6 relation declarations (joints, gear matings, worm matings in '
             'both orientations, friction on both sides of the self-locking threshold; failing calls and re-declarations '
             'that re-route the chain included) over a pool of 10 elements (two worm gears, two worm wheels), followed by 0..2 declarations after assembly; '
             'element names are symbolic strings: the solver enumerates every equality pattern of the names on the chain',
    'thorough': '900 seeded sequences of 1..13 declarations',
}
OUTSIDE = ('sequences whose drives graph from the motor is cyclic are skipped (Powertrain.__init__ does not terminate on them; '
           'not a chain); empty names (rejected by the element constructors)')
STUBS = ['element names = SStr proxies (str subclass, equality forks on z3 Int identities, constant hash)']
ASSUMPTIONS = ['names are non-empty', 'the oracle\'s drives model: an accepted declaration sets master -> slave (the property\'s reading)']
EXPLANATION = ('Symbolic execution of the real relation functions and Powertrain.__init__ with symbolic element names; the '
               'oracle walks its own model of the drives links built from the declarations that were accepted.')
MANIFEST = dict(
    level_text='Bounded symbolic execution of the real relation functions and Powertrain constructor over seeded declaration '
               'sequences with symbolic element names: for every equality pattern of the names z3-decided paths show that the '
               'powertrain is exactly the oracle\'s walk of the drives links from the motor (order, each once), ValueError iff '
               'the motor drives nothing, NameError iff two names on the chain coincide, self-locking iff a flagged worm is on '
               'the chain, and that elements / self_locking cannot be assigned nor changed by later declarations.',
    level_note='Declaration sequences are sampled (seeded), names are decided for all equality patterns; trusts z3 and the SStr proxy.',
    technique='symbolic execution of the real Python code (symbolic-equality str proxies) + z3 per path',
    design_ref='DESIGN.md section 5 C20',
)
