"""C03  Equation of motion and update

Runs the shared simulation harness (props/sim.py) with this property's obligations."""
from props import sim

ID = 'C03'


def specs(tier, seed):
    return sim.common_specs(tier, seed)


def build(sp):
    return sim.build_spec(sp, ('C03',))


JOB_CAP = {'quick': 900, 'thorough': 2400}
REQUIRED_TRIGGERS = {'quick': ('eom.acc', 'eom.speed', 'eom.position')}
BOUNDS = sim.BOUNDS
OUTSIDE = sim.OUTSIDE
STUBS = sim.STUBS
ASSUMPTIONS = sim.ASSUMPTIONS
EXPLANATION = sim.EXPLANATION
MANIFEST = dict(
    level_text='Same bounded symbolic runs; per path z3 proves acceleration*J_eq == net torque with J_eq from the documented reduction (independent oracle), and for consecutive instants speed(k) == speed(k-1)+acc(k-1)*dt (or clamped to 0 on a self-locking train), position(k) == position(k-1)+(advanced speed)*dt, with dt, inertias and initial state also given in non-SI units.',
    level_note=sim.LEVEL_NOTE,
    technique=sim.TECHNIQUE,
    design_ref='DESIGN.md section 5 C03',
)
