"""Harnesses for the motor-control layer: PWMControl.apply_rules (C14) and each
built-in rule's apply() (C15), executed on a real powertrain in an arbitrary
symbolic state."""
from __future__ import annotations

from fractions import Fraction

import z3

from oracles import chain as CH
from oracles import si
from symx.core import T, SR
from symx.harness import HarnessBase
from symx.ob import eq, holds, close, zabs, Ob


DEFAULTS = dict(th=0.75, om=2.0, Tl=0.00390625, t=1.5, tgt=1.25, start=1.0, dur=2.0, brk=0.5, mul=1.5, const=0.5,
                ilim=1.0)
GROUP = dict(th='state', om='state', t='state', Tl='load', tgt='window', start='window', dur='window', brk='shape',
             mul='shape', const='shape', ilim='shape')


def _sv(env, sym, name, **bounds):
    """symbolic if the variable's group is selected, else its concrete default"""
    if sym is None or GROUP[name] in sym:
        return env.real(name, **bounds)
    return DEFAULTS[name]


def _state_model(env, topo_name, full_motor=False, sym=None):
    """concrete chain, arbitrary kinematically consistent state, arbitrary motor load torque and time"""
    import gearpy.units as gu
    from gearpy.powertrain import Powertrain
    topo = CH.get_topology(topo_name)
    M = CH.build(env, topo, full=False)
    M.motor_sym = False
    pt = Powertrain(motor=M.motor)
    th = _sv(env, sym, 'th')
    om = _sv(env, sym, 'om')
    n = len(M.objs)
    # position/speed of element i = (product of downstream ratios) * last element's
    f = [1.0] * n
    for i in range(n - 2, -1, -1):
        f[i] = f[i + 1] * float(M.rho[i + 1])
    for i, ob in enumerate(M.objs):
        ob.angular_position = gu.AngularPosition(th * f[i], 'rad')
        ob.angular_speed = gu.AngularSpeed(om * f[i], 'rad/s')
    tl = _sv(env, sym, 'Tl')
    M.motor.load_torque = gu.Torque(tl, 'Nm')
    t = _sv(env, sym, 't')
    pt.update_time(gu.Time(t, 'sec'))
    return M, pt, dict(th=th, om=om, Tl=tl, t=t, f=f)


# ----------------------------------------------------------------------------
class ApplyRules(HarnessBase):
    """PWMControl.apply_rules with a rule set of spy rules"""
    validate_max = 30
    max_paths = 3000

    def __init__(self, kinds, topo='T3', tag='', again=False):
        self.kinds = tuple(kinds)
        self.topo = topo
        # again: the same PWMControl object is applied a second time in the same state after something else (the user,
        # reset(), another controller) changed the motor's duty cycle in between
        self.again = again
        self.name = 'apply_rules:%s:%s%s%s' % (topo, '+'.join(kinds) or 'none', tag, ':applied_again' if again else '')

    def describe(self):
        return dict(rules=list(self.kinds), topology=self.topo, applied_again_after_foreign_duty_change=self.again)

    def finding_key(self, ob, values):
        return 'apply_rules:%s:%s' % ('+'.join(self.kinds) or 'none', ob.family)

    def unsupported_is_benign(self, res):
        # a NaN-producing path (sqrt of a negative discriminant) is decided on one concrete witness per path:
        # what happens after the NaN does not depend on the magnitudes (NaN propagates)
        return res.status == 'domain'

    def run(self, env):
        import gearpy.units as gu
        from gearpy.motor_control import PWMControl
        from gearpy.motor_control.rules.rules_base import RuleBase
        from gearpy.motor_control.rules import (ConstantPWM, ReachAngularPosition, StartLimitCurrent,
                                                StartProportionalToAngularPosition)
        from gearpy.sensors import Timer, AbsoluteRotaryEncoder, Tachometer
        M, pt, st = _state_model(env, self.topo)
        rec = dict(proposals=[], raised=None, state={k: v for k, v in st.items() if k != 'f'})
        pwm0 = env.real('pwm0', lo=-1, hi=1)
        M.motor.pwm = pwm0
        rec['pwm_before'] = pwm0
        ctl = PWMControl(powertrain=pt)

        class Spy(RuleBase):
            def __init__(s, inner):
                s.inner = inner

            def apply(s):
                v = s.inner()
                rec['proposals'].append(v)
                return v

        def arb(i):
            def f():
                sel = env.real('sel_%d' % i)
                if sel > 0:
                    return env.real('prop_%d' % i)
                return None
            return f
        enc = AbsoluteRotaryEncoder(target=M.last)
        tach = Tachometer(target=M.motor)
        for i, k in enumerate(self.kinds):
            if k == 'arb':
                inner = arb(i)
            elif k == 'const':
                r = ConstantPWM(timer=Timer(start_time=gu.Time(env.real('start_%d' % i), 'sec'),
                                            duration=gu.TimeInterval(env.real('dur_%d' % i, lo=0, lo_open=True), 'sec')),
                                powertrain=pt, target_pwm_value=env.real('const_%d' % i, lo=-1, hi=1))
                inner = r.apply
            elif k == 'reach':
                r = ReachAngularPosition(encoder=enc, powertrain=pt,
                                         target_angular_position=gu.AngularPosition(env.real('tgt_%d' % i), 'rad'),
                                         braking_angle=gu.Angle(env.real('brk_%d' % i, lo=0, lo_open=True), 'rad'))
                inner = r.apply
            elif k == 'startprop':
                tgv = env.real('tgt_%d' % i)
                env.assume(T(tgv) != 0)       # the documented ramp divides by the target position
                r = StartProportionalToAngularPosition(
                    encoder=enc, powertrain=pt, target_angular_position=gu.AngularPosition(tgv, 'rad'),
                    pwm_min_multiplier=env.real('mul_%d' % i, lo=1, lo_open=True), pwm_min=0.25)
                inner = r.apply
            elif k == 'startlim':
                r = StartLimitCurrent(encoder=enc, tachometer=tach, motor=M.motor,
                                      target_angular_position=gu.AngularPosition(env.real('tgt_%d' % i), 'rad'),
                                      limit_electric_current=gu.Current(env.real('ilim_%d' % i, lo=0, lo_open=True), 'A'))
                inner = r.apply
            else:
                raise KeyError(k)
            ctl.add_rule(Spy(inner))
        try:
            ctl.apply_rules()
        except ValueError as e:
            rec['raised'] = 'ValueError'
            rec['msg'] = str(e)[:80]
        rec['pwm_after'] = M.motor.pwm
        if self.again and rec['raised'] is None:
            first = dict(proposals=rec['proposals'], pwm_after=rec['pwm_after'], pwm_before=rec['pwm_before'], raised=None)
            rec['first'] = first
            rec['proposals'] = []
            pwm1 = env.real('pwm1', lo=-1, hi=1)
            M.motor.pwm = pwm1
            rec['pwm_before'] = pwm1
            try:
                ctl.apply_rules()
            except ValueError as e:
                rec['raised'] = 'ValueError'
                rec['msg'] = str(e)[:80]
            rec['pwm_after'] = M.motor.pwm
        return rec

    def obligations(self, out):
        if not out.ok:
            return [holds('arb.no_other_exception', False, info=repr(out.exc))]
        rec = out.value
        obs = self._obs_one(rec)
        if 'first' in rec:
            obs += self._obs_one(rec['first'])
        return obs

    def _obs_one(self, rec):
        props = [p for p in rec['proposals'] if p is not None]
        obs = []
        n = len(props)
        nan = [p for p in props if isinstance(p, float) and not isinstance(p, SR) and p != p]
        if nan:
            # a rule produced NaN (no real duty cycle solves its equation): the only acceptable outcome is an
            # error that leaves the duty cycle unchanged -- never a silently accepted NaN
            pa = rec['pwm_after']
            bad = isinstance(pa, float) and not isinstance(pa, SR) and pa != pa
            return [holds('arb.nan_proposal_is_rejected', rec['raised'] is not None and not bad,
                          info='NaN proposal: raised=%r duty cycle afterwards=%r' % (rec['raised'], pa))]
        after = T(rec['pwm_after'])
        complete = len(rec['proposals']) == len(self.kinds)
        if rec['raised'] is None:
            obs.append(holds('arb.every_rule_consulted', complete))
            obs.append(holds('arb.in_range', z3.And(after >= -1, after <= 1)))
            if n == 0:
                obs.append(eq('arb.default_is_one', after, 1))
            elif n == 1:
                p = T(props[0])
                clip = z3.If(p > 1, z3.RealVal(1), z3.If(p < -1, z3.RealVal(-1), p))
                obs.append(eq('arb.single_rule_clipped', after, clip))
            else:
                obs.append(holds('arb.conflict_raises', False, info='%d applicable rules and no error' % n))
        else:
            if complete:
                obs.append(holds('arb.error_only_on_conflict', n >= 2, info='ValueError with %d applicable: %s'
                                                                            % (n, rec.get('msg'))))
                obs.append(holds('arb.conflict_raises', True))
            else:
                obs.append(holds('arb.rule_itself_raised', False, info='a rule raised: %s' % rec.get('msg')))
            obs.append(eq('arb.error_leaves_duty_unchanged', after, rec['pwm_before']))
        return obs


# ----------------------------------------------------------------------------
class RuleApply(HarnessBase):
    """one built-in rule's apply() on symbolic parameters and state"""
    validate_max = 30
    max_paths = 2000

    FIRST_STATE = dict(th=0.25, om=-1.5, Tl=0.0078125, t=0.5)

    def __init__(self, rule, topo='T3', target=-1, units=(), tag='', sym=None, twice=False):
        self.twice = twice
        self.rule = rule
        self.topo = topo
        self.target = target
        self.units = dict(units)
        self.sym = tuple(sym) if sym else None
        self.name = 'rule:%s:%s:tgt%d:%s%s%s' % (rule, topo, target, '+'.join(self.sym) if self.sym else 'all', tag,
                                                 ':second_call' if twice else '')

    def describe(self):
        return dict(rule=self.rule, topology=self.topo, sensor_target=self.target, units=self.units, second_call_on_same_rule_object=self.twice,
                    symbolic_groups=list(self.sym) if self.sym else 'all',
                    concrete_defaults={k: v for k, v in DEFAULTS.items() if self.sym and GROUP[k] not in self.sym})

    def finding_key(self, ob, values):
        return 'rule:%s:%s:%s' % (self.rule, self.topo, ob.family)

    def unsupported_is_benign(self, res):
        # sqrt of a negative discriminant: outside the rule's documented domain (see run)
        return res.status == 'domain'

    def _q(self, gu, kind, v_si, key, si_unit):
        """quantity of SI magnitude v_si expressed in self.units[key]"""
        u = self.units.get(key, si_unit)
        if u == si_unit:
            return getattr(gu, kind)(v_si, u)
        f = float(si.SI[kind][si_unit] / si.SI[kind][u])
        return getattr(gu, kind)(v_si * f, u)

    def run(self, env):
        import gearpy.units as gu
        from gearpy.motor_control.rules import (ConstantPWM, ReachAngularPosition, StartLimitCurrent,
                                                StartProportionalToAngularPosition)
        from gearpy.sensors import Timer, AbsoluteRotaryEncoder, Tachometer
        M, pt, st = _state_model(env, self.topo, sym=self.sym)
        tgt_el = M.objs[self.target]
        fi = st['f'][self.target]
        rec = dict(state={k: v for k, v in st.items() if k != 'f'}, raised=None,
                   theta=st['th'] * fi, omega=st['om'] * fi, eta=[e for e in M.eta[1:]],
                   Tmax=M.Tmax, w0=M.w0, i0=M.i0, imax=M.imax)
        enc = AbsoluteRotaryEncoder(target=tgt_el)
        try:
            if self.rule == 'const':
                start, dur = _sv(env, self.sym, 'start'), _sv(env, self.sym, 'dur', lo=0, lo_open=True)
                c = _sv(env, self.sym, 'const', lo=-1, hi=1)
                rec.update(start=start, dur=dur, const=c)
                r = ConstantPWM(timer=Timer(start_time=self._q(gu, 'Time', start, 'start', 'sec'),
                                            duration=self._q(gu, 'TimeInterval', dur, 'dur', 'sec')),
                                powertrain=pt, target_pwm_value=c)
            elif self.rule == 'reach':
                tg, bk = _sv(env, self.sym, 'tgt'), _sv(env, self.sym, 'brk', lo=0, lo_open=True)
                rec.update(tgt=tg, brk=bk)
                r = ReachAngularPosition(encoder=enc, powertrain=pt,
                                         target_angular_position=self._q(gu, 'AngularPosition', tg, 'tgt', 'rad'),
                                         braking_angle=self._q(gu, 'Angle', bk, 'brk', 'rad'))
            elif self.rule == 'startprop':
                tg, mul = _sv(env, self.sym, 'tgt'), _sv(env, self.sym, 'mul', lo=1, lo_open=True)
                if isinstance(tg, SR):
                    env.assume(T(tg) != 0)       # the documented ramp divides by the target position
                rec.update(tgt=tg, mul=mul, pwm_min_param=0.25)
                r = StartProportionalToAngularPosition(
                    encoder=enc, powertrain=pt, target_angular_position=self._q(gu, 'AngularPosition', tg, 'tgt', 'rad'),
                    pwm_min_multiplier=mul, pwm_min=0.25)
            elif self.rule == 'startlim':
                tg, il = _sv(env, self.sym, 'tgt'), _sv(env, self.sym, 'ilim', lo=0, lo_open=True)
                rec.update(tgt=tg, ilim=il)
                tach = Tachometer(target=M.motor)
                rec['omega_m'] = st['om'] * st['f'][0]
                r = StartLimitCurrent(encoder=enc, tachometer=tach, motor=M.motor,
                                      target_angular_position=self._q(gu, 'AngularPosition', tg, 'tgt', 'rad'),
                                      limit_electric_current=self._q(gu, 'Current', il, 'ilim', 'A'))
            if self.twice:
                # the rule object is first applied in ANOTHER state (as an earlier instant / an earlier simulation would):
                # a rule must not remember anything from it
                final = [(o.angular_position, o.angular_speed) for o in M.objs]
                fl, ft = M.motor.load_torque, pt.time[-1]
                F = self.FIRST_STATE
                for o, fct in zip(M.objs, st['f']):
                    o.angular_position = gu.AngularPosition(F['th'] * fct, 'rad')
                    o.angular_speed = gu.AngularSpeed(F['om'] * fct, 'rad/s')
                M.motor.load_torque = gu.Torque(F['Tl'], 'Nm')
                pt.time[-1] = gu.Time(F['t'], 'sec')
                try:
                    r.apply()
                except (ValueError, ZeroDivisionError):
                    pass
                for o, (p_, s_) in zip(M.objs, final):
                    o.angular_position, o.angular_speed = p_, s_
                M.motor.load_torque = fl
                pt.time[-1] = ft
            v = r.apply()
        except (ValueError, ZeroDivisionError, TypeError) as e:
            rec['raised'] = type(e).__name__
            rec['msg'] = str(e)[:100]
            return rec
        if isinstance(v, float) and not isinstance(v, SR) and v != v:
            # no real duty cycle satisfies the documented equation (negative discriminant): numpy returns NaN.
            # That the NaN is then accepted as a duty cycle is C14's subject; the rule's value is undefined here.
            rec['proposal'] = None
            rec['nan_proposal'] = True
            return rec
        rec['proposal'] = v
        if self.rule == 'startlim' and v is not None:
            # cross-module: feed the proposal to the motor's own laws (clipped as apply_rules would)
            inrange = not (v > 1) and not (v < -1)
            rec['unclipped'] = inrange
            if inrange:
                M.motor.pwm = v
                M.motor.compute_torque()
                M.motor.compute_electric_current()
                rec['current'] = si.si_val(M.motor.electric_current)
                rec['torque'] = si.si_val(M.motor.driving_torque)
        return rec

    def obligations(self, out):
        if not out.ok:
            return [holds('rule.no_other_exception', False, info=repr(out.exc))]
        rec = out.value
        if rec.get('nan_proposal'):
            return []
        if rec['raised'] is not None:
            return [holds('rule.apply_does_not_raise', False, info='%s: %s' % (rec['raised'], rec.get('msg')))]
        obs = []
        v = rec['proposal']
        th = T(rec['theta'])
        S = rec['state']
        if self.rule == 'const':
            t, st_, du = T(S['t']), T(rec['start']), T(rec['dur'])
            # don't-care band at the window edges: the upper edge is computed as (t - start) <= duration (one
            # rounding), and library comparisons across units carry an absolute tolerance of 1e-12
            rel = z3.RealVal(Fraction(1, 10**9)) * (zabs(t) + zabs(st_) + zabs(du))
            band = rel + (z3.RealVal(Fraction(1, 10**6)) if self.units else z3.RealVal(0))
            inside = z3.And(t >= st_ + band, t <= st_ + du - band)
            outside = z3.Or(t < st_ - band, t > st_ + du + band)
            if v is None:
                obs.append(holds('rule.const_window', z3.Not(inside), trigger=None, info='None inside the window'))
                obs.append(holds('rule.const_none_outside', True, trigger=outside))
            else:
                obs.append(holds('rule.const_window', z3.Not(outside), info='proposal outside the window'))
                obs.append(eq('rule.const_value', v, rec['const']))
            return obs
        if self.rule == 'reach':
            eta_t = z3.RealVal(1)
            for e in rec['eta']:
                eta_t = eta_t * T(e)
            err = T(S['Tl']) / T(rec['Tmax']) * T(rec['brk']) / eta_t
            ths = T(rec['tgt']) - T(rec['brk']) + err
            mag = zabs(T(rec['tgt'])) + zabs(T(rec['brk'])) + zabs(err) + zabs(th)
            band = z3.RealVal(Fraction(1, 10**6 if self.units else 10**9)) * (mag + (1 if self.units else 0))
            if v is None:
                obs.append(holds('rule.reach_window', th < ths + band, info='None although theta >= theta_s'))
            else:
                obs.append(holds('rule.reach_window', th >= ths - band, info='proposal although theta < theta_s'))
                # D*theta_b == theta_b - (theta - theta_s), error relative to the magnitudes that cancel
                obs.append(eq('rule.reach_value', T(v) * T(rec['brk']), T(rec['brk']) - (th - ths),
                              scale=(rec['tgt'], rec['brk'], err, th), tol=1e-9, prefer_robust=True))
            return obs
        if self.rule == 'startprop':
            eta_t = z3.RealVal(1)
            for e in rec['eta']:
                eta_t = eta_t * T(e)
            i0, imax = T(rec['i0']), T(rec['imax'])
            cand = 1 / eta_t * (T(S['Tl']) / T(rec['Tmax'])) * ((imax - i0) / imax) + i0 / imax
            dmin = z3.If(cand * T(rec['mul']) != 0, cand * T(rec['mul']), T(rec['pwm_min_param']))
            tg = T(rec['tgt'])
            band = z3.RealVal(Fraction(1, 10**6 if self.units else 10**9)) * (zabs(tg) + zabs(th) + (1 if self.units else 0))
            if v is None:
                obs.append(holds('rule.startprop_window', th > tg - band, info='None although theta <= target'))
            else:
                obs.append(holds('rule.startprop_window', th <= tg + band, info='proposal although theta > target'))
                # the candidate minimum duty cycle is a sum that may cancel: its rounding error is relative to its terms
                t1 = 1 / eta_t * (T(S['Tl']) / T(rec['Tmax'])) * ((imax - i0) / imax) * T(rec['mul'])
                t2 = i0 / imax * T(rec['mul'])
                sc = (tg, th, t1 * th, t2 * th, t1 * tg, t2 * tg)
                main = close(T(v) * tg, (1 - dmin) * th + dmin * tg, 1e-9, 0.0, sc)
                # the candidate is a sum that can cancel to (almost) zero: within rounding of zero the library may
                # legitimately take either branch (candidate*multiplier, or the explicit pwm_min fallback)
                cm = cand * T(rec['mul'])
                tiny = zabs(cm) <= z3.RealVal(Fraction(1, 10**9)) * (zabs(t1) + zabs(t2))
                pm = T(rec['pwm_min_param'])
                alt = z3.Or(close(T(v) * tg, (1 - pm) * th + pm * tg, 1e-9, 0.0, sc),
                            close(T(v) * tg, (1 - cm) * th + cm * tg, 1e-9, 0.0, sc))
                f = z3.Or(main, z3.And(tiny, alt))
                o = Ob('rule.startprop_value', f, f)
                obs.append(o)
            return obs
        if self.rule == 'startlim':
            tg = T(rec['tgt'])
            band = z3.RealVal(Fraction(1, 10**6)) * (zabs(tg) + zabs(th) + 1) if self.units else z3.RealVal(0)
            if v is None:
                obs.append(holds('rule.startlim_window', th > tg - band, info='None although theta <= target'))
                return obs
            obs.append(holds('rule.startlim_window', th <= tg + band, info='proposal although theta > target'))
            if rec.get('unclipped') and 'current' in rec:
                D = T(v)
                i0, imax = T(rec['i0']), T(rec['imax'])
                outside_dead = z3.Or(D * imax > i0, -D * imax > i0)
                obs.append(eq('rule.startlim_current_equals_limit', rec['current'], rec['ilim'], tol=1e-9,
                              trigger=outside_dead))
            return obs
        raise KeyError(self.rule)
