"""C09  Gear tooth force and stresses equal the documented formulas.

The real constructors, relation functions and compute_* methods run on proxies:
module, face width, both elastic moduli, worm reference diameter and the reference
torque (either sign) are solver variables; kind, role, optional-data subsets,
teeth numbers (exhaustive in the thorough tier), helix and pressure angles are
enumerated.  The oracle has its own copy of the Lewis table and the worm table."""
from __future__ import annotations

import itertools
import math
import random
from fractions import Fraction

import z3

from symx.core import T, SR
from symx.harness import HarnessBase, Batch
from symx.ob import eq, holds, close, zabs, Ob
from oracles import si

ID = 'C09'

LEWIS = [(10, 0.201), (11, 0.226), (12, 0.245), (13, 0.264), (14, 0.276), (15, 0.289), (16, 0.295), (17, 0.302),
         (18, 0.308), (19, 0.314), (20, 0.320), (21, 0.325), (22, 0.330), (24, 0.337), (26, 0.344), (28, 0.352),
         (30, 0.358), (32, 0.364), (34, 0.370), (36, 0.377), (38, 0.383), (40, 0.389), (43, 0.394), (45, 0.399),
         (50, 0.408), (55, 0.415), (60, 0.421), (65, 0.425), (70, 0.429), (75, 0.433), (80, 0.436), (90, 0.442),
         (100, 0.446), (150, 0.458), (200, 0.463), (300, 0.471), (400, 0.478), (500, 0.484)]
WORM_LEWIS = {14.5: 0.1, 20.0: 0.125, 25.0: 0.15, 30.0: 0.175}
HERTZ = 0.262922


def lewis_ref(z):
    """linear interpolation between the tabulated teeth numbers, clamped at both ends"""
    if z <= LEWIS[0][0]:
        return LEWIS[0][1]
    if z >= LEWIS[-1][0]:
        return LEWIS[-1][1]
    for (z0, y0), (z1, y1) in zip(LEWIS, LEWIS[1:]):
        if z0 <= z <= z1:
            return y0 + (y1 - y0) * (z - z0) / (z1 - z0)


def virtual_teeth(z, helix_deg):
    """z_v = z / (cos^2(beta_b) cos(beta)), tan(beta_b) = tan(beta) cos(alpha_t), tan(alpha_t) = tan(20deg)/cos(beta)"""
    b = math.radians(helix_deg)
    at = math.atan(math.tan(math.radians(20.0)) / math.cos(b))
    bb = math.atan(math.cos(at) * math.tan(b))
    return z / math.cos(bb) ** 2 / math.cos(b), at


OPT = ('module', 'face_width', 'elastic_modulus')


class GearStress(HarnessBase):
    validate_max = 6
    max_paths = 200

    def __init__(self, kind, role, own, mate, n=20, n_mate=30, helix=20.0, pa=20.0, units=None, idx=0, remate=False):
        self.remate = remate
        self.kind, self.role = kind, role
        self.own, self.mate = tuple(own), tuple(mate)
        self.n, self.n_mate, self.helix, self.pa = n, n_mate, helix, pa
        self.units = dict(units or {})
        self.name = 'stress:%s:%s:own=%s:mate=%s:n=%d/%d:helix=%s:pa=%s%s' % (
            kind, role, '+'.join(own) or '-', '+'.join(mate) or '-', n, n_mate, helix, pa, ':remated' if remate else '')

    def describe(self):
        return dict(kind=self.kind, role=self.role, own_data=self.own, mate_data=self.mate, teeth=self.n,
                    mate_teeth=self.n_mate, helix=self.helix, pressure_angle=self.pa, units=self.units,
                    mated_and_evaluated_with_another_mate_first=self.remate)

    def finding_key(self, ob, values):
        return 'stress:%s:%s:%s' % (self.kind, self.role, ob.family)

    def _len(self, gu, env, name, unit_key='len'):
        v = env.real(name, lo=1e-4, hi=10)          # metres
        u = self.units.get(unit_key + '_' + name.split('_')[-1], self.units.get(unit_key, 'm'))
        f = float(si.SI['Length']['m'] / si.SI['Length'][u])
        return v, gu.Length(v * f if u != 'm' else v, u)

    def _make(self, env, gu, mo, tag, kind, data, n, shared_module=None):
        J = gu.InertiaMoment(1, 'kgm^2')
        kw = {}
        S = {}
        if 'module' in data:
            if shared_module is not None:
                S['m'], kw['module'] = shared_module
            else:
                S['m'], kw['module'] = self._len(gu, env, 'm_' + tag)
        if 'face_width' in data:
            S['b'], kw['face_width'] = self._len(gu, env, 'b_' + tag)
        if 'elastic_modulus' in data and kind in ('spur', 'helical'):
            e = env.real('E_' + tag, lo=1e6, hi=1e13)
            S['E'] = e
            u = self.units.get('stress_' + tag, self.units.get('stress', 'Pa'))
            f = float(si.SI['Stress']['Pa'] / si.SI['Stress'][u])
            kw['elastic_modulus'] = gu.Stress(e * f if u != 'Pa' else e, u)
        if 'reference_diameter' in data:
            S['d'], kw['reference_diameter'] = self._len(gu, env, 'd_' + tag)
        if kind == 'spur':
            g = mo.SpurGear(name=tag, n_teeth=n, inertia_moment=J, **kw)
        elif kind == 'helical':
            g = mo.HelicalGear(name=tag, n_teeth=n, inertia_moment=J, helix_angle=gu.Angle(self.helix, 'deg'), **kw)
        elif kind == 'wheel':
            g = mo.WormWheel(name=tag, n_teeth=n, inertia_moment=J, helix_angle=gu.Angle(self.helix, 'deg'),
                             pressure_angle=gu.Angle(self.pa, 'deg'), **kw)
        elif kind == 'worm':
            g = mo.WormGear(name=tag, n_starts=2, inertia_moment=J, helix_angle=gu.Angle(self.helix, 'deg'),
                            pressure_angle=gu.Angle(self.pa, 'deg'), **kw)
        return g, S

    def run(self, env):
        import gearpy.units as gu
        import gearpy.mechanical_objects as mo
        from gearpy.utils import add_gear_mating, add_worm_gear_mating
        mate_kind = {'spur': 'spur', 'helical': 'helical', 'wheel': 'worm', 'worm': 'wheel'}[self.kind]
        g, S = self._make(env, gu, mo, 'g', self.kind, self.own, self.n)
        shared = None
        if self.kind in ('spur', 'helical') and 'module' in self.own and 'module' in self.mate:
            shared = (S['m'], g.module)         # mating gears share the module (same physical value, same object)
        mt, SM = self._make(env, gu, mo, 'mate', mate_kind, self.mate, self.n_mate, shared_module=shared)
        rec = dict(S=S, SM=SM, flags_before=self._flags(g))
        if self.remate:
            # history: the gear was first mated with ANOTHER, fully specified mate (other teeth number / diameter / modulus,
            # concrete) and its force and stresses were evaluated once; the relation is then re-declared with the real mate
            J = gu.InertiaMoment(1, 'kgm^2')
            if mate_kind == 'worm':
                decoy = mo.WormGear(name='decoy', n_starts=3, inertia_moment=J, helix_angle=gu.Angle(self.helix, 'deg'),
                                    pressure_angle=gu.Angle(self.pa, 'deg'), reference_diameter=gu.Length(37, 'mm'))
            elif mate_kind == 'wheel':
                decoy = mo.WormWheel(name='decoy', n_teeth=41, inertia_moment=J, helix_angle=gu.Angle(self.helix, 'deg'),
                                     pressure_angle=gu.Angle(self.pa, 'deg'), module=gu.Length(2, 'mm'), face_width=gu.Length(9, 'mm'))
            else:
                kw = dict(name='decoy', n_teeth=self.n_mate + 17, inertia_moment=J, module=g.module,
                          face_width=gu.Length(3, 'mm'), elastic_modulus=gu.Stress(70, 'GPa'))
                decoy = mo.SpurGear(**kw) if mate_kind == 'spur' else \
                    mo.HelicalGear(helix_angle=gu.Angle(self.helix, 'deg'), **kw)
            m0, s0 = (g, decoy) if self.role == 'master' else (decoy, g)
            if self.kind in ('spur', 'helical'):
                add_gear_mating(master=m0, slave=s0, efficiency=0.8)
            else:
                add_worm_gear_mating(master=m0, slave=s0, friction_coefficient=0.05)
            g.load_torque = g.driving_torque = gu.Torque(0.75, 'Nm')
            f0 = self._flags(g)
            if f0['force']:
                g.compute_tangential_force()
            if f0.get('bending'):
                g.compute_bending_stress()
            if self.kind in ('spur', 'helical') and f0.get('contact'):
                g.compute_contact_stress()
        master, slave = (g, mt) if self.role == 'master' else (mt, g)
        if self.kind in ('spur', 'helical'):
            add_gear_mating(master=master, slave=slave, efficiency=0.9)
        else:
            add_worm_gear_mating(master=master, slave=slave, friction_coefficient=0.05)
        rec['flags'] = self._flags(g)
        tq = env.real('Tref')
        u = self.units.get('torque', 'Nm')
        f = float(si.SI['Torque']['Nm'] / si.SI['Torque'][u])
        tqq = gu.Torque(tq * f if u != 'Nm' else tq, u)
        other = gu.Torque(env.real('Tother'), 'Nm')
        if self.role == 'master':
            g.load_torque, g.driving_torque = tqq, other
        else:
            g.driving_torque, g.load_torque = tqq, other
        rec['Tref'] = tq
        fl = rec['flags']
        if fl['force']:
            g.compute_tangential_force()
            rec['Ft'] = si.si_val(g.tangential_force)
        if fl.get('bending'):
            g.compute_bending_stress()
            rec['sb'] = si.si_val(g.bending_stress)
            rec['lewis'] = float(g.lewis_factor)
        if self.kind in ('spur', 'helical') and fl.get('contact'):
            try:
                g.compute_contact_stress()
                rec['sc'] = si.si_val(g.contact_stress)
            except ValueError as e:
                rec['sc_raised'] = str(e)[:60]
        return rec

    @staticmethod
    def _flags(g):
        out = dict(force=bool(g.tangential_force_is_computable))
        if hasattr(g, 'bending_stress_is_computable'):
            out['bending'] = bool(g.bending_stress_is_computable)
            out['contact'] = bool(g.contact_stress_is_computable)
        return out

    def obligations(self, out):
        if not out.ok:
            return [holds('st.no_other_exception', False, info=repr(out.exc))]
        rec = out.value
        S, SM = rec['S'], rec['SM']
        obs = []
        own, mate = set(self.own), set(self.mate)
        fl = rec['flags']
        # --- flags: own data present (for a mated worm wheel's bending stress also the worm's reference diameter)
        if self.kind == 'worm':
            exp = dict(force='reference_diameter' in own)
        else:
            exp = dict(force='module' in own, bending={'module', 'face_width'} <= own,
                       contact={'module', 'face_width', 'elastic_modulus'} <= own and self.kind != 'wheel')
            if self.kind == 'wheel':
                exp['bending'] = exp['bending'] and 'reference_diameter' in mate
        for k, v in exp.items():
            obs.append(holds('st.flag_%s' % k, fl.get(k) == v, info='%s flag is %s, data own=%s mate=%s'
                                                                   % (k, fl.get(k), sorted(own), sorted(mate))))
        if 'Ft' not in rec:
            return obs
        Tref = T(rec['Tref'])
        absT = zabs(Tref)
        if self.kind == 'worm':
            d = T(S['d'])
        else:
            d = self.n * T(S['m'])
        Ft = T(rec['Ft'])
        # F_t * (d/2) == |T_ref|
        obs.append(eq('st.tangential_force', Ft * d, 2 * absT, tol=1e-9, prefer_robust=bool(self.units)))
        obs.append(holds('st.force_nonnegative', Ft >= 0))
        if self.kind == 'worm':
            # keeps the recorded finding narrow: anything that is neither the documented force nor the recorded
            # "times tan(helix)" form is a different violation
            tb = z3.RealVal(Fraction(math.tan(math.radians(self.helix))))
            obs.append(holds('st.worm_force_documented_or_recorded_form',
                             z3.Or(close(Ft * d, 2 * absT, 1e-9), close(Ft * d, 2 * absT * tb, 1e-9))))
        if 'sb' in rec:
            sb = T(rec['sb'])
            if self.kind == 'spur':
                Y = lewis_ref(self.n)
                den = T(S['m']) * T(S['b']) * z3.RealVal(Fraction(Y))
            elif self.kind == 'helical':
                zv, _ = virtual_teeth(self.n, self.helix)
                Y = lewis_ref(zv)
                den = T(S['m']) * T(S['b']) * z3.RealVal(Fraction(Y))
            else:   # worm wheel
                Y = WORM_LEWIS[self.pa]
                dw = T(SM['d'])
                pn = z3.RealVal(Fraction(math.pi)) * dw * z3.RealVal(Fraction(math.sin(math.radians(self.helix)))) / self.n
                bw = T(S['b'])
                lim = z3.RealVal(Fraction(0.67)) * dw
                beff = z3.If(bw <= lim, bw, lim)
                den = pn * beff * z3.RealVal(Fraction(Y))
            obs.append(holds('st.lewis_factor', abs(rec['lewis'] - Y) <= 1e-9 * Y, info='library %r oracle %r' % (rec['lewis'], Y)))
            obs.append(eq('st.bending_stress', sb * den, Ft, tol=1e-8, prefer_robust=True))
        if self.kind in ('spur', 'helical') and fl.get('contact'):
            mate_ok = {'module', 'elastic_modulus'} <= mate
            if not mate_ok:
                obs.append(holds('st.contact_needs_mate_data', 'sc_raised' in rec,
                                 info='mate lacks %s but a contact stress was returned' % sorted({'module', 'elastic_modulus'} - mate)))
            else:
                obs.append(holds('st.contact_computed', 'sc' in rec, info=rec.get('sc_raised')))
            if 'sc' in rec and mate_ok:
                sc = T(rec['sc'])
                E1, E2 = T(S['E']), T(SM['E'])
                D1, D2 = d, self.n_mate * T(SM['m'])
                if self.kind == 'spur':
                    a = math.radians(20.0)
                    cb = 1.0
                else:
                    _, a = virtual_teeth(self.n, self.helix)
                    cb = math.cos(math.radians(self.helix))
                k = Fraction(HERTZ) ** 2 * 4 * Fraction(cb) / (Fraction(math.cos(a)) * Fraction(math.sin(a)))
                # sigma_c^2 * b * D1 D2 (E1+E2) == 0.262922^2 * 4 F_t cos(beta)/(cos a sin a) * (D1+D2) * E1 E2
                lhs = sc * sc * T(S['b']) * D1 * D2 * (E1 + E2)
                rhs = z3.RealVal(k) * Ft * (D1 + D2) * E1 * E2
                obs.append(eq('st.contact_stress', lhs, rhs, tol=1e-8, prefer_robust=True))
                obs.append(holds('st.contact_nonnegative', sc >= 0))
        return obs


# ----------------------------------------------------------------------------
def _subsets(keys):
    for r in range(len(keys) + 1):
        for c in itertools.combinations(keys, r):
            yield c


def specs(tier, seed):
    rnd = random.Random(seed)
    cells = []
    teeth_quick = [10, 11, 17, 23, 41, 47, 100, 125, 499, 500, 501, 520]
    # 1. optional-data subsets (structure): both roles, spur and helical
    for kind in ('spur', 'helical'):
        for role in ('master', 'slave'):
            for own in _subsets(OPT):
                for mate in _subsets(OPT):
                    if tier == 'quick' and not ({'module', 'face_width'} <= set(own)) and rnd.random() < 0.7:
                        continue
                    cells.append((kind, role, own, mate, rnd.choice(teeth_quick), rnd.choice([12, 30, 77]),
                                  rnd.choice([0.0, 15.0, 30.0]), 20.0, ()))
    for role in ('master', 'slave'):
        for own in _subsets(('module', 'face_width')):
            for mate in _subsets(('reference_diameter',)):
                for pa in (14.5, 20.0, 25.0, 30.0):
                    cells.append(('wheel', role, own, mate, rnd.choice([10, 30, 57]), 2, rnd.choice([5.0, 10.0, 15.0]), pa, ()))
        for own in _subsets(('reference_diameter',)):
            for mate in _subsets(('module', 'face_width')):
                cells.append(('worm', role, own, mate, 2, 30, 10.0, 20.0, ()))
    # 2. teeth range (Lewis interpolation, virtual teeth)
    full = ('module', 'face_width', 'elastic_modulus')
    teeth = teeth_quick if tier == 'quick' else list(range(10, 521))
    for z in teeth:
        cells.append(('spur', 'master' if z % 2 else 'slave', full, full, z, 30, 0.0, 20.0, ()))
        for hx in ([20.0] if tier == 'quick' else [0.0, 10.0, 45.0, 89.9]):
            if tier == 'quick' or z % 7 == 0 or z < 60:
                cells.append(('helical', 'slave' if z % 2 else 'master', full, full, z, 30, hx, 20.0, ()))
    for hx in (0.0, 5.0, 45.0, 60.0, 89.9):
        cells.append(('helical', 'master', full, full, 25, 40, hx, 20.0, ()))
    # 2b. the gear was mated with another mate and evaluated before (re-declared relation)
    for kind, own, mate, n, nm in (('spur', full, full, 18, 50), ('helical', full, full, 25, 31),
                                   ('wheel', ('module', 'face_width'), ('reference_diameter',), 30, 2),
                                   ('worm', ('reference_diameter',), ('module', 'face_width'), 2, 30)):
        for role in ('master', 'slave'):
            cells.append((kind, role, own, mate, n, nm, 10.0 if kind in ('wheel', 'worm') else 20.0, 20.0, (), True))
    # 3. units
    # the gear and its mate give module, face width and elastic modulus in units of their own
    full = ('module', 'face_width', 'elastic_modulus')
    for kind in ('spur', 'helical'):
        for role in ('master', 'slave'):
            cells.append((kind, role, full, full, 21, 33, 20.0, 20.0, (('stress_g', 'GPa'), ('stress_mate', 'MPa'), ('len', 'mm'), ('len_mate', 'cm'))))
    for k in range(4 if tier == 'quick' else 16):
        u = (('len', rnd.choice(['dm', 'cm', 'mm'])), ('len_mate', rnd.choice(['m', 'dm', 'cm', 'mm'])),
             ('stress_g', rnd.choice(['kPa', 'MPa', 'GPa'])), ('stress_mate', rnd.choice(['Pa', 'kPa', 'MPa', 'GPa'])),
             ('torque', rnd.choice(list(si.SI['Torque']))))
        cells.append((rnd.choice(['spur', 'helical']), rnd.choice(['master', 'slave']), full, full, 18 + k, 40, 20.0, 20.0, u))
        cells.append(('wheel', rnd.choice(['master', 'slave']), ('module', 'face_width'), ('reference_diameter',), 30, 2,
                      10.0, rnd.choice([14.5, 20.0, 25.0, 30.0]), u))
    out = []
    n = 12
    for i in range(0, len(cells), n):
        out.append(('cells', i // n, tuple(cells[i:i + n])))
    # 4. inside simulations: at every recorded instant the recorded force and stresses are what the element's formulas
    # give from the torques recorded at that instant (also while a self-locking chain is held and the supply is cut)
    from props import sim
    fullv = (('module', 1.0), ('face_width', 8.0), ('elastic_modulus', 200.0))
    cut = ('const', ((0.1, 10.0, 0.0),))
    out.append(sim.spec('T1', schedule=(('run', 3),), opt=((1, fullv), (2, fullv)), tag=':stress'))
    out.append(sim.spec('T7', schedule=(('run', 3),), control=cut, tag=':stress_supply_cut',
                        opt=((1, (('reference_diameter', 10.0),)), (2, fullv[:2]), (3, fullv), (4, fullv))))
    out.append(sim.spec('T7', schedule=(('run', 2), ('run', 2)), control=('fixed', -0.75), tag=':stress_reverse',
                        opt=((1, (('reference_diameter', 10.0),)), (2, fullv[:2]), (3, fullv), (4, fullv))))
    if tier == 'thorough':
        out.append(sim.spec('T6', schedule=(('run', 3),), tag=':stress',
                            opt=((2, (('reference_diameter', 10.0),)), (3, fullv[:2]), (4, fullv), (5, fullv), (6, fullv), (7, fullv))))
        out.append(sim.spec('T4', schedule=(('run', 2),), control=('arb', -1, 1), tag=':stress_arbitrary_duty',
                            opt=((1, (('reference_diameter', 10.0),)), (2, fullv[:2]))))
    return out


def build(sp):
    if sp[0] == 'sim':
        from props import sim
        return sim.build_spec(sp, ('C09',))
    _, i, cells = sp
    return Batch('cells:%d' % i, [GearStress(c[0], c[1], c[2], c[3], c[4], c[5], c[6], c[7], dict(c[8]), idx=i,
                                             remate=(len(c) > 9 and c[9])) for c in cells])


JOB_CAP = {'quick': 900, 'thorough': 3000}
REQUIRED_TRIGGERS = {'quick': ('st.flag_force', 'st.flag_bending', 'st.flag_contact', 'st.tangential_force', 'st.lewis_factor',
                               'st.bending_stress', 'st.contact_stress', 'st.contact_needs_mate_data')}
BOUNDS = {
    'quick': 'spur and helical gears in both mating roles with every subset of {module, face width, elastic modulus} on '
             'both mates (sampled where no stress is computable); worm wheel (4 pressure angles, both roles, subsets of '
             '{module, face width} x worm with/without reference diameter) and worm gear; teeth numbers at table knots, '
             'midpoints, 499..520; helix 0..89.9 deg; module, face width in [0.1 mm, 10 m], moduli in [1e6, 1e13] Pa, worm '
             'diameter and the reference torque (any real, either sign) symbolic; 8 seeded unit assignments (independent units for the '
             'gear and its mate); every kind and role also after a first mating + evaluation with another mate (re-declared relation); inside simulations (T1; self-locking T7 with the supply cut at t = 0.1 s and with a negative duty over a continuation) every recorded force / stress sample equals what the formulas of the element give from the torques recorded at the same instant',
    'thorough': 'every teeth number 10..520 for spur gears; helical gears at four helix angles; 32 unit assignments',
}
OUTSIDE = ('the Lewis factor of a helical gear uses tan(beta_b) = tan(beta) cos(alpha_t) (the code\'s, and the standard, '
           'relation; the docstring prints cos(beta)); rounding of the stress formulas (doubles as reals)')
STUBS = ['spur_gear.sqrt / helical_gear.sqrt -> fresh y >= 0 with y*y == x', 'sin/cos/tan/atan on concrete angles only',
         'min(face width, 0.67 d) through the library\'s own Length comparisons (forks)']
ASSUMPTIONS = ['doubles as reals; relative tolerance 1e-8 on the stress identities (table values and trigonometric constants are doubles)',
               'mating gears share one module (add_gear_mating rejects different modules)']
EXPLANATION = ('Symbolic execution of the real gear constructors, relation functions and compute_tangential_force / '
               'compute_bending_stress / compute_contact_stress; the oracle is written from the docstrings with its own '
               'copy of the Lewis and worm tables; the Hertz identity is checked squared (no square root in the oracle).')
MANIFEST = dict(
    level_text='Symbolic execution of the real gear classes over the enumerated kinds, mating roles, optional-data subsets and '
               'teeth numbers with module, face width, elastic moduli, worm diameter and the reference torque as solver '
               'variables: z3 proves per path the three computable flags, F_t = |T_ref|/(d/2) with the reference torque chosen '
               'by the mating role, the Lewis-factor bending stress (independent table, virtual teeth for helical gears, '
               'normal-pitch / effective-width form for worm wheels) and the squared Hertz contact-stress identity, and that a '
               'contact stress whose mate lacks module or elastic modulus raises ValueError.',
    level_note='Teeth exhaustive 10..520 in the thorough tier, sampled in quick; doubles as reals; trusts z3, the proxies and '
               'the sqrt stub (y >= 0, y*y == x).',
    technique='symbolic execution of the real Python code (float-subclass proxies) + z3 (NRA) per path; concrete replay',
    design_ref='DESIGN.md section 5 C09',
)
