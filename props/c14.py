"""C14  Duty-cycle arbitration: one rule wins, default 1, always within [-1,1]"""
import itertools

from props import sim, rules

ID = 'C14'
KINDS = ['arb', 'const', 'reach', 'startprop', 'startlim']


def specs(tier, seed):
    S = [('rules', ())]
    nmax = 3 if tier == 'quick' else 4
    for n in range(1, nmax + 1):
        for combo in itertools.combinations_with_replacement(KINDS, n):
            # keep the exploration small: at most two built-in rules with symbolic parameters per set
            if sum(1 for k in combo if k != 'arb') > 2:
                continue
            if tier == 'quick' and n == 3 and sum(1 for k in combo if k != 'arb') > 1:
                continue
            S.append(('rules', combo))
    # the same control object applied again after a foreign change of the motor's duty cycle
    for combo in ((), ('arb',), ('const',), ('arb', 'arb'), ('arb', 'const')):
        S.append(('rules_again', combo))
    # ... and inside simulations: the control reused after reset(), and after the user set the duty cycle between two runs
    S.append(sim.spec('T3', schedule=(('run', 2), ('reset',), ('reinit',), ('run', 2)),
                      control=('const', ((0.0, 10.0, 0.5),)), tag=':control_reused_after_reset'))
    S.append(sim.spec('T1', schedule=(('run', 2), ('setpwm', -0.25), ('run', 2)),
                      control=('const', ((0.0, 10.0, 0.5),)), tag=':duty_set_between_runs'))
    S.append(sim.spec('T3', schedule=(('run', 2),), control=('arb', -3, 3), tag=':wide'))
    S.append(sim.spec('T1', schedule=(('run', 2),), control=('arb', -3, 3), tag=':wide'))
    S.append(sim.spec('T1', schedule=(('run', 2),), control=('arbopt2',)))
    S.append(sim.spec('T1', schedule=(('run', 3),)))
    S.append(sim.spec('T4', schedule=(('run', 2),), control=('arb', -1, 1), tag=':locking'))
    S.append(sim.spec('T4', schedule=(('run', 3),), control=('const', ((0.0, 0.125, 0.0), (0.2, 1.0, 0.5))), tag=':locking_const'))
    if tier == 'thorough':
        S.append(sim.spec('T6', schedule=(('run', 2),), control=('arb', -3, 3), tag=':wide'))
        S.append(sim.spec('T4', schedule=(('run', 2),), control=('arb', -3, 3), tag=':wide', max_paths=30000))
        S.append(sim.spec('T3', schedule=(('run', 2),), control=('arbopt2',), max_paths=30000))
    return S


def build(sp):
    if sp[0] == 'rules':
        return rules.ApplyRules(sp[1])
    if sp[0] == 'rules_again':
        return rules.ApplyRules(sp[1], again=True)
    return sim.build_spec(sp, ('C14',))


JOB_CAP = {'quick': 900, 'thorough': 2400}
REQUIRED_TRIGGERS = {'quick': ('arb.default_is_one', 'arb.single_rule_clipped', 'arb.conflict_raises', 'arb.in_range',
                               'pwm.in_range', 'pwm.single_rule_clipped', 'pwm.conflict_raises_ValueError',
                               'pwm.simulation_stops_at_conflict', 'pwm.default_without_control')}
BOUNDS = {
    'quick': 'PWMControl.apply_rules on a real powertrain (T3) in an arbitrary state: rule sets of 0..3 rules drawn from '
             '{arbitrary-proposal rule, ConstantPWM, ReachAngularPosition, StartProportionalToAngularPosition, '
             'StartLimitCurrent} with all parameters, windows and the state symbolic and proposals unbounded, five rule sets also applied a second time on the same control object after a foreign change of the duty cycle; whole '
             'simulations K=2 with one arbitrary rule proposing in [-3,3] (T1, T3), on the self-locking T4 (arbitrary duty in [-1,1]; ConstantPWM rules that cut the supply and restore it) and with two optional arbitrary rules (T1); a ConstantPWM control reused after reset() (T3) and after the user set the duty cycle between two runs (T1)',
    'thorough': 'rule sets of 0..4 rules; simulations on T4/T6, conflicts on T3',
}
OUTSIDE = 'more than 4 rules; K>2 with symbolic proposals at every instant'
STUBS = sim.STUBS + ['start_limit_current.np.sqrt -> fresh y>=0, y*y==x; negative argument = domain-event path replayed concretely']
ASSUMPTIONS = sim.ASSUMPTIONS + ['a spy RuleBase wrapper records what each rule actually returned (the oracle speaks about those values)']
EXPLANATION = sim.EXPLANATION
MANIFEST = dict(
    level_text="Bounded symbolic execution of the real PWMControl.apply_rules and of Solver.run with control: every proposal, "
               "window parameter and the powertrain state are solver variables; per path z3 proves the duty cycle equals the "
               "single non-None proposal clipped to [-1,1], 1 when no rule applies, that two applicable rules raise ValueError "
               "leaving the duty cycle untouched and ending the simulation at that instant, and that every recorded duty cycle "
               "is within [-1,1]; NaN-producing domain events are replayed on the unpatched library.",
    level_note=sim.LEVEL_NOTE, technique=sim.TECHNIQUE, design_ref='DESIGN.md section 5 C14')
