"""C01  Kinematic coupling

Runs the shared simulation harness (props/sim.py) with this property's obligations."""
from props import sim

ID = 'C01'


def specs(tier, seed):
    return sim.common_specs(tier, seed)


def build(sp):
    return sim.build_spec(sp, ('C01',))


JOB_CAP = {'quick': 900, 'thorough': 2400}
REQUIRED_TRIGGERS = {'quick': ('kin.pos', 'kin.spd', 'kin.acc')}
BOUNDS = sim.BOUNDS
OUTSIDE = sim.OUTSIDE
STUBS = sim.STUBS
ASSUMPTIONS = sim.ASSUMPTIONS
EXPLANATION = sim.EXPLANATION
MANIFEST = dict(
    level_text='Bounded symbolic execution of the real Solver.run through the public API on catalogue chains (motor, flywheel, spur/helical/worm matings in both orientations, joints): inertias, motor constants, efficiencies, dt, the initial state, every load value and (bounded runs) every duty-cycle value are solver variables; at every recorded instant and adjacent pair z3 proves position/speed/acceleration(up) == ratio * (down) with the ratio taken from the declared teeth, including first instants, continuations, reset/rerun and held instants of self-locking trains.',
    level_note=sim.LEVEL_NOTE,
    technique=sim.TECHNIQUE,
    design_ref='DESIGN.md section 5 C01',
)
