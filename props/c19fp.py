"""C19, floating-point part: the strictly positive kinds over ALL finite doubles (denormals included)."""
from __future__ import annotations

import time

import z3

from oracles import si
from symx import fp, stubs
from symx.fp import SF, FPEngine, FT

POS = ['Length', 'Surface', 'InertiaMoment', 'TimeInterval']


class FPInvariant:
    def __init__(self, tier='quick', part=0, nparts=1):
        self.tier, self.part, self.nparts = tier, part, nparts
        self.name = 'fp:invariant:%d/%d' % (part, nparts)
        self.cap = 300      # idle: seconds per query; the margin is for a loaded machine
        cells = []
        for kind in POS:
            us = si.units_of(kind)
            for u1 in us:
                cells.append(('construct', kind, u1, None))
                cells.append(('mul', kind, u1, None))
                cells.append(('div', kind, u1, None))
                for u2 in us:
                    if u1 != u2:
                        cells.append(('to', kind, u1, u2))
                        cells.append(('to_inplace', kind, u1, u2))
        self.cells = [c for i, c in enumerate(cells) if i % nparts == part]

    @staticmethod
    def _op(what, kind, u1, u2, v, k=None):
        """returns (values of every live object AFTER the step, name of the exception raised or None): the operand is
        inspected after the step also when the step raised (a failed in-place operation must not leave it invalid)"""
        import gearpy.units as gu
        x = getattr(gu, kind)(v, u1)
        live = [x]
        raised = None
        try:
            if what == 'to':
                live.append(x.to(u2))
            elif what == 'to_inplace':
                x.to(u2, inplace=True)
            elif what == 'mul':
                live.append(x * k)
            elif what == 'div':
                live.append(x / k)
        except (ValueError, ZeroDivisionError) as e:
            raised = type(e).__name__
        return [o.value for o in live], raised

    def _run(self, what, kind, u1, u2):
        def run(env):
            v = env.real('v')
            k = env.real('k') if what in ('mul', 'div') else None
            if what != 'construct':
                env.assume(z3.fpGT(FT(v), fp._c(0.0)))
            try:
                vals, raised = self._op(what, kind, u1, u2, v, k)
                return dict(vals=vals, raised=raised)
            except (ValueError, ZeroDivisionError) as e:      # the constructor itself rejected v
                return dict(vals=[], raised=type(e).__name__)
        return run

    def process(self, want_functions=False):
        t0 = time.time()
        R = dict(harness=self.name, paths=0, ok_paths=0, exc_paths=0, pruned=0, unsupported=0, domain=0, obligations=0,
                 discharged=0, discharged_exact=0, discharged_robust=0, violations=[], inconclusive=[], validated=0,
                 validation_boundary=0, triggers={}, samples=[], functions=[], exc_classes={},
                 stats=dict(queries=0, solver_s=0.0, unknown=0, branches=0), extra={})
        undecided = []
        for what, kind, u1, u2 in self.cells:
            eng = FPEngine(max_paths=60, max_seconds=30)
            with stubs.installed():
                results = eng.explore(self._run(what, kind, u1, u2))
            R['paths'] += len(results)
            R['stats']['branches'] += eng.stats['branches']
            for res in results:
                if res.status != 'ok':
                    R['inconclusive'].append('FP path %s in %s %s %s->%s: %r' % (res.status, what, kind, u1, u2, res.exc))
                    continue
                R['ok_paths'] += 1
                conds = []
                for val in res.value['vals']:
                    if isinstance(val, SF):
                        conds.append(z3.fpGT(val.t, fp._c(0.0)))
                    else:
                        conds.append(z3.BoolVal(val > 0))
                if not conds:
                    continue
                R['obligations'] += 1
                ts = time.time()
                r, vals, who = fp.solve_race(res.path + [z3.Not(z3.And(conds))], eng._vars, self.cap)
                R['stats']['queries'] += 1
                R['stats']['solver_s'] += time.time() - ts
                if r == 'unsat':
                    R['discharged'] += 1
                    R['discharged_exact'] += 1
                    R['triggers']['fp.live_objects_positive'] = R['triggers'].get('fp.live_objects_positive', 0) + 1
                elif r == 'sat':
                    try:
                        got, _r = self._op(what, kind, u1, u2, vals['v'], vals.get('k'))
                        bad = [g for g in got if not (g > 0)]
                    except (ValueError, ZeroDivisionError):
                        bad = []
                    if bad:
                        key = 'fp:%s:%s:invalid_live_object' % (what, kind)
                        if key not in [v['key'] for v in R['violations']]:
                            R['violations'].append(dict(
                                key=key, harness=self.name, describe=dict(op=what, kind=kind, units=[u1, u2]),
                                obligation='fp.live_objects_positive', failed=['fp.live_objects_positive'],
                                inputs=dict(v=vals['v'], k=vals.get('k'), what=what, kind=kind, u1=u1, u2=u2),
                                detail='%s(%r, %r) after %s%s holds value %r' % (kind, vals['v'], u1, what,
                                                                                  ' -> ' + u2 if u2 else '', bad[0]),
                                outcome='ok'))
                    else:
                        R['inconclusive'].append('FP model did not reproduce: %s %s %r' % (what, kind, vals))
                else:
                    R['stats']['unknown'] += 1
                    undecided.append('%s %s %s->%s' % (what, kind, u1, u2))
            if len(R['samples']) < 2:
                R['samples'].append(dict(harness=self.name, op=what, kind=kind, units=[u1, u2], mode='Float64 (all finite doubles)'))
        if undecided:
            R['inconclusive'].append('%d FP queries undecided within %ds: %s' % (len(undecided), self.cap, undecided[:5]))
        R['wall_s'] = time.time() - t0
        return R

    def replay(self, data):
        i = data['inputs']
        try:
            got, _r = self._op(i['what'], i['kind'], i['u1'], i['u2'], i['v'], i.get('k'))
        except (ValueError, ZeroDivisionError) as e:
            print('replay raised', repr(e))
            return 0
        print('replay:', i, '->', got)
        if any(not (g > 0) for g in got):
            print('VIOLATION property=C19 replay=<given>')
            return 1
        return 0
