"""C15  Each control rule applies in its documented window with its documented value"""
from props import sim, rules

ID = 'C15'


def specs(tier, seed):
    S = []
    # linearity discipline: each variant makes one family of magnitudes symbolic (the others take fixed values)
    VAR = {'const': [None],
           'reach': [('state', 'window', 'load'), ('state', 'window', 'shape')],
           'startprop': [('state', 'window'), ('load', 'shape'), ('state', 'load')],
           'startlim': [None]}
    for rule in ('const', 'reach', 'startprop', 'startlim'):
        for topo, tgts in (('T3', (-1, 0)), ('T6', (-1, 3)), ('T5', (-1,))):
            if rule in ('startprop', 'startlim') and topo == 'T5':
                continue        # motor without current data: constructor rejects (documented)
            for tg in tgts:
                for sym in VAR[rule]:
                    S.append(('rule', rule, topo, tg, (), sym))
    # the same rule object applied a second time in another state (rules must be memoryless)
    for rule in ('const', 'reach', 'startprop', 'startlim'):
        for sym in VAR[rule]:
            S.append(('rule', rule, 'T3', -1, (), sym, True))
    S.append(('rule', 'const', 'T3', -1, (('start', 'ms'), ('dur', 'min')), None))
    S.append(('rule', 'reach', 'T3', -1, (('tgt', 'rot'), ('brk', 'deg')), ('state', 'window', 'load')))
    S.append(('rule', 'startprop', 'T3', -1, (('tgt', 'deg'),), ('state', 'window')))
    S.append(('rule', 'startlim', 'T3', -1, (('tgt', 'arcmin'), ('ilim', 'mA')), None))
    if tier == 'thorough':
        for u in ('hour', 'min', 'ms'):
            S.append(('rule', 'const', 'T6', -1, (('start', u), ('dur', 'sec')), None))
        for u in ('deg', 'arcmin', 'arcsec', 'rot'):
            S.append(('rule', 'reach', 'T6', 2, (('tgt', u), ('brk', u)), ('state', 'window', 'load')))
            S.append(('rule', 'startprop', 'T6', 2, (('tgt', u),), ('state', 'window')))
        for t in ('T4', 'T7'):
            for rule in ('reach', 'startprop', 'startlim'):
                S.append(('rule', rule, t, -1, (), ('state', 'window', 'load') if rule != 'startlim' else None))
    return S


def build(sp):
    if sp[0] == 'sim':
        return sim.build_spec(sp, ('C15',))
    _, rule, topo, tg, units, sym = sp[:6]
    return rules.RuleApply(rule, topo=topo, target=tg, units=units, tag=':units' if units else '', sym=sym,
                           twice=(len(sp) > 6 and sp[6]))


JOB_CAP = {'quick': 600, 'thorough': 1800}
REQUIRED_TRIGGERS = {'quick': ('rule.const_window', 'rule.const_value', 'rule.reach_window', 'rule.reach_value',
                               'rule.startprop_window', 'rule.startprop_value', 'rule.startlim_window',
                               'rule.startlim_current_equals_limit')}
BOUNDS = {
    'quick': 'each built-in rule\'s apply() on real powertrains T3 (worm, currents), T6 (8 elements), T5 (wheel drives worm) '
             'in an arbitrary kinematically consistent state: rule parameters (windows, targets, braking angle, multiplier, '
             'limit current), position, speed, motor load torque and time are solver variables; encoder on the last and on an '
             'inner element; parameters also given in non-SI units; StartLimitCurrent\'s proposal is fed to the motor\'s own '
             'compute_torque / compute_electric_current; each rule object also applied a second time after a first application in another state',
    'thorough': 'quick + every unit of Time/AngularPosition for windows and targets, self-locking chains T4/T7',
}
OUTSIDE = ('configuration magnitudes (motor constants, efficiencies) are concrete per topology; whole controlled simulations with the '
           'built-in rules (tried: StartLimitCurrent in Solver.run with symbolic state does not finish - the square root makes the duty cycle an '
           'unconstrained auxiliary for the feasibility solver and the lock/saturation forks multiply; the single-application cross-check '
           'with the motor laws is decided for all states instead); tachometer of StartLimitCurrent on the motor (the formula is the motor\'s law)')
STUBS = ['start_limit_current.np.sqrt -> fresh y>=0, y*y==x; negative argument = domain-event path replayed concretely',
         'gearpy.units.unit_base.fabs -> ite']
ASSUMPTIONS = ['doubles as reals', 'window edges: exact when both operands share a unit; a relative 1e-6 don\'t-care band when '
               'the library\'s tolerant cross-unit comparison is in play',
               'static error and minimum duty cycle as documented in the rules\' docstrings (overall efficiency = product over all matings)']
EXPLANATION = sim.EXPLANATION
MANIFEST = dict(
    level_text="Bounded symbolic execution of each built-in rule's real apply() with all rule parameters and the powertrain "
               "state symbolic: z3 proves per path that the rule answers None exactly outside its documented window and "
               "otherwise the documented value (constant; 1-(theta-theta_s)/theta_b with the documented static error; the "
               "linear ramp from the documented minimum duty cycle), and that the duty cycle proposed by StartLimitCurrent, fed "
               "to the motor's own torque and current laws, yields exactly the limit current when unclipped and outside the dead zone.",
    level_note=sim.LEVEL_NOTE, technique=sim.TECHNIQUE, design_ref='DESIGN.md section 5 C15')
