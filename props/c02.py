"""C02  Torque propagation and balance

Runs the shared simulation harness (props/sim.py) with this property's obligations."""
from props import sim

ID = 'C02'


def specs(tier, seed):
    return sim.common_specs(tier, seed)


def build(sp):
    return sim.build_spec(sp, ('C02',))


JOB_CAP = {'quick': 900, 'thorough': 2400}
REQUIRED_TRIGGERS = {'quick': ('tq.motor_law', 'tq.drive', 'tq.load_up', 'tq.load_value', 'tq.load_arg_time', 'tq.net')}
BOUNDS = sim.BOUNDS
OUTSIDE = sim.OUTSIDE
STUBS = sim.STUBS
ASSUMPTIONS = sim.ASSUMPTIONS
EXPLANATION = sim.EXPLANATION
MANIFEST = dict(
    level_text="Same bounded symbolic runs of Solver.run; per path z3 proves for every instant: motor driving torque == documented characteristic at the recorded speed and duty cycle, driving torque(i) == driving torque(i-1)*efficiency*ratio, the load function received exactly the recorded (position, speed, time) and its fresh symbolic value is the last element's load torque, load torque(i-1) == load torque(i)/(efficiency*ratio), net == driving - load.",
    level_note=sim.LEVEL_NOTE,
    technique=sim.TECHNIQUE,
    design_ref='DESIGN.md section 5 C02',
)
