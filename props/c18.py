"""C18  Snapshot and export report the recorded history faithfully.

A powertrain whose histories are unconstrained symbolic samples on a short time
axis is built through the public setters / update_time / update_time_variables;
the real snapshot() (scipy.interp1d stubbed by its documented contract) and the real
export_time_variables() (pandas / os stubbed by a recording frame) run on proxies."""
from __future__ import annotations

import itertools
import random
from contextlib import contextmanager
from fractions import Fraction

import z3

from oracles import si
from symx.core import T, SR, Unsupported
from symx.harness import HarnessBase, Batch
from symx.ob import eq, holds, close, zabs

ID = 'C18'

VARS = ['angular position', 'angular speed', 'angular acceleration', 'torque', 'driving torque', 'load torque',
        'tangential force', 'bending stress', 'contact stress', 'electric current', 'pwm']
KIND = {'angular position': 'AngularPosition', 'angular speed': 'AngularSpeed', 'angular acceleration': 'AngularAcceleration',
        'torque': 'Torque', 'driving torque': 'Torque', 'load torque': 'Torque', 'tangential force': 'Force',
        'bending stress': 'Stress', 'contact stress': 'Stress', 'electric current': 'Current'}
ATTR = {'angular position': 'angular_position', 'angular speed': 'angular_speed', 'angular acceleration': 'angular_acceleration',
        'torque': 'torque', 'driving torque': 'driving_torque', 'load torque': 'load_torque', 'tangential force': 'tangential_force',
        'bending stress': 'bending_stress', 'contact stress': 'contact_stress', 'electric current': 'electric_current'}
UNIT_ARG = {'angular position': 'angular_position_unit', 'angular speed': 'angular_speed_unit',
            'angular acceleration': 'angular_acceleration_unit', 'torque': 'torque_unit', 'driving torque': 'driving_torque_unit',
            'load torque': 'load_torque_unit', 'tangential force': 'force_unit', 'bending stress': 'stress_unit',
            'contact stress': 'stress_unit', 'electric current': 'current_unit'}
DEFAULT_UNITS = {'angular position': 'rad', 'angular speed': 'rad/s', 'angular acceleration': 'rad/s^2', 'torque': 'Nm',
                 'driving torque': 'Nm', 'load torque': 'Nm', 'tangential force': 'N', 'bending stress': 'MPa',
                 'contact stress': 'MPa', 'electric current': 'A'}


CT = [0.0, 0.5, 1.25, 1.5, 2.75]        # concrete instants (dyadic) used when the output units are not the defaults


CT_EARLIER = [0.25, 0.75, 1.0, 2.0, 3.0]  # instants of an earlier, discarded simulation on the same powertrain


def build_history(env, n_inst, concrete_times=False, time_units=None, earlier=False):
    """motor(currents) - joint - spur(m,b,E) - mate - spur(m,b,E): every one of the 11 variables is recorded by some element.
    earlier=True: the powertrain first carried ANOTHER history with the same number of instants (other instants, other
    samples), was asked for a snapshot of it and was reset() - nothing of it may survive"""
    import gearpy.units as gu
    import gearpy.mechanical_objects as mo
    from gearpy.utils import add_fixed_joint, add_gear_mating
    from gearpy.powertrain import Powertrain
    J = gu.InertiaMoment(1, 'kgm^2')
    m = mo.DCMotor(name='motor', inertia_moment=J, no_load_speed=gu.AngularSpeed(100, 'rad/s'), maximum_torque=gu.Torque(1, 'Nm'),
                   no_load_electric_current=gu.Current(0.25, 'A'), maximum_electric_current=gu.Current(2, 'A'))
    opt = dict(module=gu.Length(1, 'mm'), face_width=gu.Length(5, 'mm'), elastic_modulus=gu.Stress(200, 'GPa'))
    a = mo.SpurGear(name='gear a', n_teeth=10, inertia_moment=J, **opt)
    b = mo.SpurGear(name='gear b', n_teeth=20, inertia_moment=J, module=gu.Length(1, 'mm'))
    f = mo.Flywheel(name='flywheel', inertia_moment=J)
    add_fixed_joint(master=m, slave=a)
    add_gear_mating(master=a, slave=b, efficiency=0.9)
    add_fixed_joint(master=b, slave=f)
    pt = Powertrain(motor=m)
    els = [m, a, b, f]
    if earlier:
        e_times, _ = _fill_history(env, pt, els, n_inst, concrete_times, time_units, 'e', CT_EARLIER)
        try:
            pt.snapshot(target_time=gu.Time(e_times[1], 'sec'), print_data=False)
        except ValueError:
            pass
        pt.reset()
    times, hist = _fill_history(env, pt, els, n_inst, concrete_times, time_units, '', CT)
    return pt, els, times, hist


def _fill_history(env, pt, els, n_inst, concrete_times, time_units, tag, ct):
    import gearpy.units as gu
    times = []
    hist = {}
    tprev = None
    for k in range(n_inst):
        if concrete_times:
            t = ct[k]
        elif k == 0:
            t = env.real(tag + 't0')
        else:
            d = env.real('%sd%d' % (tag, k), lo=1e-3, hi=1e3)      # strictly increasing instants
            t = tprev + d
        tprev = t
        times.append(t)
        tu = (time_units or ['sec'] * n_inst)[k]
        pt.update_time(gu.Time(t if tu == 'sec' else t * float(si.SI['Time']['sec'] / si.SI['Time'][tu]), tu))
        for ei, el in enumerate(els):
            for var in el.time_variables.keys() if k else _advertised(el):
                if var == 'pwm':
                    v = env.real('%ss_%d_pwm_%d' % (tag, ei, k), lo=-1, hi=1)
                    el.pwm = v
                else:
                    v = env.real('%ss_%d_%s_%d' % (tag, ei, var.replace(' ', '_'), k))
                    setattr(el, ATTR[var], getattr(gu, KIND[var])(v, DEFAULT_UNITS[var]))
                hist[(ei, var, k)] = v
            el.update_time_variables()
    return times, hist


def _advertised(el):
    keys = list(el.time_variables.keys())
    if hasattr(el, 'pwm') and 'pwm' not in keys:
        keys.append('pwm')
    return keys


class Snapshot(HarnessBase):
    validate_max = 6
    max_paths = 200

    def __init__(self, variables, units, n_inst=3, where='between', idx=0, time_units=None):
        self.time_units = list(time_units) if time_units else None
        self.idx = idx
        self.variables = None if variables is None else tuple(variables)
        self.units = dict(units)
        self.n_inst = n_inst
        self.where = where
        self.name = 'snapshot:%d:%s:%s' % (idx, 'all' if variables is None else '+'.join(v.replace(' ', '_') for v in variables), where)

    def describe(self):
        return dict(variables=self.variables, units=self.units, instants=self.n_inst, target=self.where, time_units=self.time_units)

    def finding_key(self, ob, values):
        return 'snapshot:%s' % ob.family

    def run(self, env):
        import gearpy.units as gu
        conc = bool(self.units) or bool(self.time_units)       # linearity discipline: unit factors only with a concrete time axis
        pt, els, times, hist = build_history(env, self.n_inst, concrete_times=conc, time_units=self.time_units,
                                             earlier=(self.idx % 3 == 0))
        if self.where == 'on_grid':
            tt = times[1]
        elif self.where == 'late':
            tt = 2.0                      # inside the last interval of a 5-instant axis
        elif conc:
            tt = 0.875
        else:
            tt = env.real('tt')
        kw = {UNIT_ARG[v]: u for v, u in self.units.items()}
        rec = dict(times=times, tt=tt, hist={'%d|%s|%d' % k: v for k, v in hist.items()}, raised=None,
                   names=[e.name for e in els], advertised=[sorted(e.time_variables.keys()) for e in els])
        try:
            if self.idx % 2:
                # the powertrain was already asked for another snapshot (other instant, other selection): no memory allowed
                pt.snapshot(target_time=gu.Time(times[0], 'sec'), variables=['torque', 'pwm'], print_data=False)
            df = pt.snapshot(target_time=gu.Time(tt, 'sec'), variables=None if self.variables is None else list(self.variables),
                             print_data=False, **kw)
        except ValueError as e:
            rec['raised'] = 'ValueError'
            rec['msg'] = str(e)[:80]
            return rec
        rec['columns'] = [str(c) for c in df.columns]
        rec['index'] = [str(i) for i in df.index]
        cells = {}
        for r in df.index:
            for c in df.columns:
                v = df.loc[r, c]
                if isinstance(v, SR):
                    cells['%s|%s' % (r, c)] = v
                elif v is None or (isinstance(v, float) and v != v):
                    cells['%s|%s' % (r, c)] = None
                else:
                    cells['%s|%s' % (r, c)] = float(v)
        rec['cells'] = cells
        return rec

    def _unit(self, var):
        return self.units.get(var, DEFAULT_UNITS.get(var, ''))

    def _col(self, var):
        return var if var == 'pwm' else '%s (%s)' % (var, self._unit(var))

    def obligations(self, out):
        if not out.ok:
            return [holds('snap.no_other_exception', False, info=repr(out.exc))]
        rec = out.value
        times = [T(t) for t in rec['times']]
        tt = T(rec['tt'])
        inside = z3.And(tt >= times[0], tt <= times[-1])
        if rec['raised'] is not None:
            band = z3.RealVal(Fraction(1, 10**9)) * (zabs(times[0]) + zabs(times[-1]) + 1)
            return [holds('snap.error_only_outside_interval', z3.Or(tt < times[0] + band, tt > times[-1] - band),
                          info='%s: %s' % (rec['raised'], rec.get('msg')))]
        obs = []
        sel = list(VARS) if self.variables is None else [v for v in VARS if v in self.variables]
        recorded_by_any = set(v for adv in rec['advertised'] for v in adv)
        exp_cols = [self._col(v) for v in sel if v in recorded_by_any]
        obs.append(holds('snap.columns_are_the_selected_variables', sorted(rec['columns']) == sorted(exp_cols),
                         info='columns %s expected %s' % (rec['columns'], exp_cols)))
        # one row per element that records at least one selected variable, in powertrain order
        exp_rows = [nm for ei, nm in enumerate(rec['names']) if any(v in rec['advertised'][ei] for v in sel)]
        obs.append(holds('snap.rows_are_the_elements', rec['index'] == exp_rows, info='%s expected %s' % (rec['index'], exp_rows)))
        n = self.n_inst
        for ei, name in enumerate(rec['names']):
            for var in sel:
                if var not in rec['advertised'][ei]:
                    continue
                col = self._col(var)
                key = '%s|%s' % (name, col)
                if key not in rec['cells'] or rec['cells'][key] is None:
                    obs.append(holds('snap.cell_present[%s,%s]' % (name, var), False,
                                     info='no value for %s of %s' % (var, name)))
                    continue
                cell = T(rec['cells'][key])
                if var == 'pwm':
                    f = z3.RealVal(1)
                else:
                    f = z3.RealVal(si.SI[KIND[var]][DEFAULT_UNITS[var]] / si.SI[KIND[var]][self._unit(var)])
                s = [T(rec['hist']['%d|%s|%d' % (ei, var, k)]) * f for k in range(n)]
                # piecewise-linear interpolation of the neighbouring samples (on the grid: the sample itself)
                cases, rcases = [], []
                for k in range(n - 1):
                    lo, hi = times[k], times[k + 1]
                    interp = s[k] + (s[k + 1] - s[k]) * (tt - lo) / (hi - lo)
                    # robust reading: relative to the two samples, the instants' own rounding (they may sit far from 0:
                    # tt - lo cancels) included through a 1e-9 band on the bracket
                    tband = z3.RealVal(Fraction(1, 10 ** 9)) * (zabs(lo) + zabs(hi))
                    rc = z3.And(tt >= lo - tband, tt <= hi + tband, close(cell, interp, 1e-9, 0.0, (s[k], s[k + 1])))
                    rcases.append(rc)
                    cases.append(rc if (self.units or self.time_units) else z3.And(tt >= lo, tt <= hi, cell == interp))
                from symx.ob import Ob
                # exact on proxies; the robust reading serves the evaluation on concrete (double) runs
                obs.append(Ob('snap.value_is_sample_or_interpolation[%s,%s]' % (name, var), z3.Or(cases), z3.Or(rcases)))
        return obs


# ----------------------------------------------------------------------------
class RecFrame:
    """stands in for pandas.DataFrame inside gearpy.utils.export: records the columns it is given"""
    last = None

    def __init__(self, *a, **k):
        self.cols = {}
        self.order = []
        RecFrame.last = self
        self.csv = None

    def __setitem__(self, k, v):
        if k not in self.cols:
            self.order.append(k)
        self.cols[k] = list(v)

    def to_csv(self, path, index=False):
        self.csv = (path, index)


class RecPd:
    DataFrame = RecFrame


class RecOs:
    class path:
        @staticmethod
        def exists(p):
            return True

        @staticmethod
        def dirname(p):
            import os
            return os.path.dirname(p)

    @staticmethod
    def makedirs(p):
        pass


@contextmanager
def export_stubs():
    import gearpy.utils.export as ex
    old = (ex.pd, ex.os)
    ex.pd, ex.os = RecPd, RecOs
    try:
        yield
    finally:
        ex.pd, ex.os = old


class Export(HarnessBase):
    validate_max = 3
    max_paths = 50

    def __init__(self, units, time_unit='sec', n_inst=3, idx=0):
        self.units = dict(units)
        self.time_unit = time_unit
        self.n_inst = n_inst
        self.name = 'export:%d:%s' % (idx, time_unit)

    def describe(self):
        return dict(units=self.units, time_unit=self.time_unit, instants=self.n_inst)

    def finding_key(self, ob, values):
        return 'export:%s' % ob.family

    def run(self, env):
        from gearpy.utils import export_time_variables
        pt, els, times, hist = build_history(env, self.n_inst, concrete_times=True)
        kw = {UNIT_ARG[v]: u for v, u in self.units.items()}
        rec = dict(times=times, hist={'%d|%s|%d' % k: v for k, v in hist.items()}, files=[],
                   advertised=[list(e.time_variables.keys()) for e in els])
        if env.symbolic:
            with export_stubs():
                for ei, el in enumerate(els):
                    export_time_variables(rotating_object=el, file_path='/nonexistent/verif/%d' % ei, time_array=pt.time,
                                          time_unit=self.time_unit, **kw)
                    fr = RecFrame.last
                    rec['files'].append(dict(cols=fr.order, data={c: fr.cols[c] for c in fr.order}, csv=list(fr.csv)))
        else:
            import tempfile, shutil, os
            import pandas as pd
            d = tempfile.mkdtemp(prefix='verif_c18_')
            try:
                for ei, el in enumerate(els):
                    p = os.path.join(d, 'sub', '%d' % ei)
                    export_time_variables(rotating_object=el, file_path=p, time_array=pt.time, time_unit=self.time_unit, **kw)
                    df = pd.read_csv(p + '.csv')
                    rec['files'].append(dict(cols=[str(c) for c in df.columns],
                                             data={str(c): [float(x) for x in df[c]] for c in df.columns},
                                             csv=['/nonexistent/verif/%d.csv' % ei, False]))
            finally:
                shutil.rmtree(d, ignore_errors=True)
        return rec

    def obligations(self, out):
        if not out.ok:
            return [holds('exp.no_exception', False, info=repr(out.exc))]
        rec = out.value
        obs = []
        n = self.n_inst
        ft = z3.RealVal(si.SI['Time']['sec'] / si.SI['Time'][self.time_unit])
        for ei, fl in enumerate(rec['files']):
            adv = rec['advertised'][ei]
            exp_cols = ['time (%s)' % self.time_unit] + [v if v == 'pwm' else '%s (%s)' % (v, self.units.get(v, DEFAULT_UNITS[v]))
                                                          for v in adv]
            obs.append(holds('exp.columns[%d]' % ei, fl['cols'] == exp_cols, info='%s vs %s' % (fl['cols'], exp_cols)))
            obs.append(holds('exp.csv_without_index[%d]' % ei, fl['csv'][0].endswith('.csv') and fl['csv'][1] is False))
            tcol = fl['data'].get('time (%s)' % self.time_unit, [])
            obs.append(holds('exp.one_row_per_instant[%d]' % ei, len(tcol) == n and all(len(v) == n for v in fl['data'].values())))
            for k in range(min(n, len(tcol))):
                obs.append(eq('exp.time[%d,k=%d]' % (ei, k), tcol[k], T(rec['times'][k]) * ft, tol=1e-9))
            for v in adv:
                col = v if v == 'pwm' else '%s (%s)' % (v, self.units.get(v, DEFAULT_UNITS[v]))
                if col not in fl['data']:
                    continue
                if v == 'pwm':
                    f = z3.RealVal(1)
                else:
                    f = z3.RealVal(si.SI[KIND[v]][DEFAULT_UNITS[v]] / si.SI[KIND[v]][self.units.get(v, DEFAULT_UNITS[v])])
                for k in range(min(n, len(fl['data'][col]))):
                    obs.append(eq('exp.value[%d,%s,k=%d]' % (ei, v, k), fl['data'][col][k],
                                  T(rec['hist']['%d|%s|%d' % (ei, v, k)]) * f, tol=1e-9))
        return obs


# ----------------------------------------------------------------------------
def _units(rnd, full=False):
    u = {}
    for v, kind in KIND.items():
        if full or rnd.random() < 0.6:
            u[v] = rnd.choice(si.units_of(kind))
    # bending and contact stress share one unit argument
    if 'bending stress' in u or 'contact stress' in u:
        s = u.get('bending stress', u.get('contact stress'))
        u['bending stress'] = u['contact stress'] = s
    return tuple(sorted(u.items()))


def specs(tier, seed):
    rnd = random.Random(seed)
    cells = [('snap', None, (), 3, 'between'), ('snap', None, (), 3, 'on_grid'), ('snap', None, _units(rnd, True), 4, 'between')]
    # a history whose instants carry different time units (what a continuation in another unit leaves behind)
    cells.append(('snap', None, (), 5, 'late', ('sec', 'sec', 'sec', 'ms', 'ms')))
    cells.append(('snap', ('angular speed', 'torque'), (), 5, 'between', ('min', 'min', 'sec', 'sec', 'hour')))
    cells.append(('snap', None, (), 5, 'on_grid', ('ms', 'sec', 'min', 'hour', 'ms')))
    for v in VARS:
        cells.append(('snap', (v,), (), 3, 'between'))
        cells.append(('snap', (v,), _units(rnd, True), 3, 'between'))
    subsets = []
    if tier == 'thorough':
        for r in range(1, len(VARS) + 1):
            for c in itertools.combinations(VARS, r):
                subsets.append(c)
    else:
        for _ in range(64):
            k = rnd.randint(1, len(VARS))
            subsets.append(tuple(sorted(rnd.sample(VARS, k), key=VARS.index)))
    for i, c in enumerate(subsets):
        cells.append(('snap', c, _units(rnd) if i % 2 else (), 3, rnd.choice(['between', 'on_grid'])))
    for tu in si.units_of('Time'):
        cells.append(('export', _units(rnd, tu == 'min'), tu, 3))
    out = []
    n = 8 if tier == 'quick' else 40
    for i in range(0, len(cells), n):
        out.append(('cells', i // n, tuple(cells[i:i + n])))
    return out


def build(sp):
    _, i, cells = sp
    hs = []
    for j, c in enumerate(cells):
        if c[0] == 'snap':
            hs.append(Snapshot(c[1], c[2], c[3], c[4], idx=i * 100 + j, time_units=c[5] if len(c) > 5 else None))
        else:
            hs.append(Export(c[1], c[2], c[3], idx=i * 100 + j))
    return Batch('cells:%d' % i, hs)


JOB_CAP = {'quick': 900, 'thorough': 3000}
REQUIRED_TRIGGERS = {'quick': ('snap.columns_are_the_selected_variables', 'snap.rows_are_the_elements',
                               'snap.value_is_sample_or_interpolation', 'snap.error_only_outside_interval',
                               'exp.columns', 'exp.one_row_per_instant', 'exp.time', 'exp.value')}
BOUNDS = {
    'quick': 'histories whose instants carry mixed time units (as a continuation in another unit leaves them); in every third cell the powertrain first carried another history of the same length (other instants and samples), was asked for a snapshot and was reset(); in every second cell another snapshot is taken first; a 4-element powertrain (motor with currents, fully specified spur gear, spur gear with module only, flywheel: all 11 '
             'variables are recorded by some element) with 3-4 instants whose samples, instants and the target time are all '
             'symbolic; snapshot with default variables, each single variable, 64 seeded subsets (on the grid and between '
             'instants), seeded output units; export in each of the four time units with seeded output units',
    'thorough': 'all 2^11 - 1 variable subsets',
}
OUTSIDE = ('pandas, scipy and the file system (stubbed contracts: linear interpolation, a frame that keeps what it is given, a CSV '
           'writer that writes it); one concrete end-to-end export per validated path re-reads the real CSV')
STUBS = ['gearpy.powertrain.interp1d -> piecewise-linear interpolation on ascending distinct knots, fork on the bracket, '
         'ValueError out of range', 'gearpy.utils.export.pd / os -> recording frame (symbolic mode only)',
         'gearpy.units.unit_base.fabs -> ite']
ASSUMPTIONS = ['recorded instants strictly increasing', 'samples are arbitrary reals (pwm in [-1,1])', 'doubles as reals']
EXPLANATION = ('Symbolic execution of the real Powertrain.snapshot and export_time_variables on histories of unconstrained symbolic '
               'samples; a path on which a proxy reaches pandas internals is replayed concretely and judged by the same oracle.')
MANIFEST = dict(
    level_text='Symbolic execution of the real snapshot() and export_time_variables() on a powertrain whose recorded histories, '
               'instants and target time are solver variables: z3 proves per path that the snapshot has exactly the columns of the '
               'selected variables, one row per element, and that every cell is the recorded sample (on the grid) or the linear '
               'interpolation of the two neighbouring samples converted to the requested unit; that the exported table has one '
               'row per instant with the time and every recorded variable converted to the requested units. Paths on which pandas '
               'concretises a proxy are replayed on the unpatched library and judged by the same oracle.',
    level_note='3-4 instants; variable subsets sampled in quick, exhaustive in thorough; scipy/pandas/IO are stubbed contracts '
               '(validated on sampled paths against the real libraries).',
    technique='symbolic execution of the real Python code (float-subclass proxies) + z3 per path; concrete replay',
    design_ref='DESIGN.md section 5 C18',
)
