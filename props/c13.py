"""C13  A self-locking powertrain is never driven by its load

Runs the shared simulation harness (props/sim.py) with this property's obligations."""
from props import sim

ID = 'C13'


def specs(tier, seed):
    S = []
    R2 = (('run', 2),)
    arb = ('arb', -1, 1)
    for t in ('T4', 'T7'):
        S.append(sim.spec(t, schedule=R2, control=arb))
        S.append(sim.spec(t, schedule=(('run', 4),)))
        for d in (0, 0.5, -0.75):
            S.append(sim.spec(t, schedule=(('run', 3),), control=('fixed', d)))
    for t in ('T4', 'T7'):
        # continuation while (possibly) held with a non-zero duty cycle: the hold must survive the new run() call
        S.append(sim.spec(t, schedule=(('run', 2), ('run', 2))))
        S.append(sim.spec(t, schedule=(('run', 2), ('run', 2)), control=('fixed', 0.5)))
    for t in ('T3', 'T1'):
        S.append(sim.spec(t, schedule=R2, control=arb))
    S.append(sim.spec('T6', schedule=(('run', 3),)))
    for t in ('T8', 'T9'):
        S.append(sim.spec(t, schedule=(('run', 3),)))
        S.append(sim.spec(t, schedule=(('run', 3),), control=('fixed', -0.75)))
    if tier == 'thorough':
        for t in ('T4', 'T7'):
            S.append(sim.spec(t, schedule=(('run_nc', 2), ('run', 2)), control=arb, tag=':second_window'))
        for pa, hx, thr in ((14.5, 10.0, 0.1707), (20.0, 15.0, 0.2518), (25.0, 20.0, 0.3299), (30.0, 30.0, 0.5)):
            for side, f in (('below', round(thr * 0.97, 4)), ('above', round(thr * 1.03, 4))):
                S.append(sim.spec('W:%s:%s:%s' % (pa, hx, f), schedule=R2, control=arb, tag=':' + side))
        for t in ('T4', 'T7'):
            S.append(sim.spec(t, schedule=(('run', 5),)))
        S.append(sim.spec('T6', schedule=R2, control=arb))
    return S


def build(sp):
    return sim.build_spec(sp, ('C13',))


JOB_CAP = {'quick': 900, 'thorough': 2400}
REQUIRED_TRIGGERS = {'quick': ('lock.zero_duty_zero_speed', 'lock.pos_duty_nonneg_speed', 'lock.neg_duty_nonpos_speed', 'lock.clamp_is_total', 'lock.held_positions_constant', 'lock.release_needs_commanded_torque', 'lock.never_clamped_acc', 'lock.flag_matches_criterion')}
BOUNDS = {
    'quick': 'two-stage worm trains T8/T9 (self-locking stage first / last, K=3, duty 1 and -0.75); self-locking trains T4 (20 deg / helix 10 deg, f=0.4) and T7 (14.5 deg / helix 5 deg, f=0.3, gears after the '
             'wheel): K=2 with an arbitrary duty cycle in [-1,1] at every instant (zeros and sign changes are models), '
             'K=4 at the default duty 1, K=3 at fixed duty 0 / 0.5 / -0.75, continuation 2+2 at duty 1 and 0.5; loads unbounded, either sign; non-self-locking T3/T6 with arbitrary duty (never clamped)',
    'thorough': 'quick + run(2)+run(2) with the arbitrary duty in the second window only + all four pressure angles with friction just below / just above the threshold, K=5, T6 arbitrary duty',
}
OUTSIDE = 'K>=3 with an arbitrary duty cycle at every instant (> 8000 paths); symbolic friction (decided in C10)'
STUBS = sim.STUBS
ASSUMPTIONS = sim.ASSUMPTIONS
EXPLANATION = sim.EXPLANATION
MANIFEST = dict(
    level_text="Bounded symbolic execution of the real Solver.run lock automaton on self-locking worm trains with unbounded symbolic loads and an arbitrary symbolic duty cycle per instant: z3 proves at every instant the sign relation between the duty cycle in force and the motor speed, that any deviation from the equation of motion is a total clamp (all speeds and accelerations zero), that held positions stay constant and that motion resumes only with the motor's net torque in the commanded direction; non-self-locking trains are proved never clamped.",
    level_note=sim.LEVEL_NOTE,
    technique=sim.TECHNIQUE,
    design_ref='DESIGN.md section 5 C13',
)
