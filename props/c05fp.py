"""C05, floating-point part: `x == x.to(u)` in both directions on IEEE-754 double proxies (bug hunting only)."""
from __future__ import annotations

import random
import time

import z3

from oracles import si
from symx import fp, stubs
from symx.fp import SF, FPEngine, FT


class FPSelfCompare:
    def __init__(self, tier='quick', part=0, nparts=1, seed=0):
        self.tier, self.part, self.nparts, self.seed = tier, part, nparts, seed
        self.name = 'fp:self_compare:%d/%d' % (part, nparts)
        self.cap = 25 if tier == 'quick' else 100
        rnd = random.Random(seed)
        cells = []
        for kind in si.KINDS:
            us = si.units_of(kind)
            pairs = [(a, b) for a in us for b in us if a != b]
            for p in rnd.sample(pairs, min(len(pairs), 1 if tier == 'quick' else 3)):
                cells.append((kind,) + p)
        self.cells = [c for i, c in enumerate(cells) if i % nparts == part]

    def _run(self, kind, u1, u2, lo, hi):
        import gearpy.units as gu

        def run(env):
            v = env.real('v', lo=lo, hi=hi)
            x = getattr(gu, kind)(v, u1)
            xc = x.to(u2)
            if isinstance(xc.value, SF):
                env.assume(z3.fpLEQ(z3.fpAbs(xc.value.t), fp._c(hi)))
            return dict(lr=bool(x == xc), rl=bool(xc == x))
        return run

    @staticmethod
    def concrete(kind, u1, u2, v):
        import gearpy.units as gu
        x = getattr(gu, kind)(v, u1)
        xc = x.to(u2)
        return bool(x == xc), bool(xc == x)

    def process(self, want_functions=False):
        t0 = time.time()
        R = dict(harness=self.name, paths=0, ok_paths=0, exc_paths=0, pruned=0, unsupported=0, domain=0, obligations=0,
                 discharged=0, discharged_exact=0, discharged_robust=0, violations=[], inconclusive=[], validated=0,
                 validation_boundary=0, triggers={}, samples=[], functions=[], exc_classes={},
                 stats=dict(queries=0, solver_s=0.0, unknown=0, branches=0), extra={})
        undecided = []
        for kind, u1, u2 in self.cells:
            for region, lo, hi in (('wide', 1e-9, 1e9), ('unit_range', 1e-3, 1.0)):
                eng = FPEngine(max_paths=50, max_seconds=30)
                with stubs.installed():
                    results = eng.explore(self._run(kind, u1, u2, lo, hi))
                R['paths'] += len(results)
                R['stats']['branches'] += eng.stats['branches']
                for res in results:
                    if res.status == 'exc':
                        # lazily forked rejection paths of the constructors (value <= 0): infeasible in the stated range
                        R['exc_paths'] += 1
                        r0, _v, _w = fp.solve_race(res.path, eng._vars, self.cap * 2)
                        R['stats']['queries'] += 1
                        if r0 != 'unsat':
                            R['inconclusive'].append('FP path raising %r in %s %s->%s is %s' % (res.exc, kind, u1, u2, r0))
                        continue
                    if res.status != 'ok':
                        R['inconclusive'].append('FP path %s in %s %s->%s: %r' % (res.status, kind, u1, u2, res.exc))
                        continue
                    R['ok_paths'] += 1
                    if res.value['lr'] and res.value['rl']:
                        continue
                    # a path on which the quantity differs from its own conversion: must be infeasible
                    R['obligations'] += 1
                    ts = time.time()
                    r, vals, who = fp.solve_race(res.path, eng._vars, self.cap)
                    R['stats']['queries'] += 1
                    R['stats']['solver_s'] += time.time() - ts
                    if r == 'unsat':
                        R['discharged'] += 1
                        R['discharged_exact'] += 1
                    elif r == 'sat':
                        lr, rl = self.concrete(kind, u1, u2, vals['v'])
                        if not (lr and rl):
                            key = 'fp:self_compare:' + region
                            if key not in [v['key'] for v in R['violations']]:
                                R['violations'].append(dict(
                                    key=key, harness=self.name, describe=dict(kind=kind, units=[u1, u2], region=region),
                                    obligation='fp.equal_to_own_conversion', failed=['fp.equal_to_own_conversion'],
                                    inputs=dict(v=vals['v'], kind=kind, u1=u1, u2=u2),
                                    detail='%s(%r, %r): x == x.to(%r) is %s, x.to(%r) == x is %s'
                                           % (kind, vals['v'], u1, u2, lr, u2, rl), outcome='ok'))
                        else:
                            R['inconclusive'].append('FP model did not reproduce: %s %s->%s v=%r' % (kind, u1, u2, vals['v']))
                    else:
                        R['stats']['unknown'] += 1
                        undecided.append('%s %s->%s %s' % (kind, u1, u2, region))
                if len(R['samples']) < 2:
                    R['samples'].append(dict(harness=self.name, kind=kind, units=[u1, u2], region=region, mode='Float64'))
        R['extra']['fp_undecided'] = undecided[:12]
        R['extra']['fp_undecided_count'] = len(undecided)
        R['wall_s'] = time.time() - t0
        return R

    def replay(self, data):
        i = data['inputs']
        lr, rl = self.concrete(i['kind'], i['u1'], i['u2'], i['v'])
        print('replay:', i, '->', lr, rl)
        if not (lr and rl):
            print('VIOLATION property=C05 replay=<given>')
            return 1
        return 0
