"""C05  Unit conversion agrees with SI definitions; comparisons are unit-blind.

(a) every ordered pair of units of every kind (exhaustive): the real constructor
and to() (copy, in place, there and back) on a symbolic magnitude against an
independent SI table; (b) all six comparison operators on two symbolic magnitudes
in two units against the order of the SI magnitudes; (c) FP mode hunts the
rounding content of `x == x.to(u)` (bug hunting only)."""
from __future__ import annotations

import random
from fractions import Fraction

import z3

from oracles import si
from symx.core import T, SR
from symx.harness import HarnessBase, Batch
from symx.ob import eq, holds, close, zabs, Ob

ID = 'C05'


def _mk(env, kind, name, unit):
    import gearpy.units as gu
    s = si.SIGN[kind]
    if s == 'pos':
        v = env.real(name, lo=0, lo_open=True)
    elif s == 'nonneg':
        v = env.real(name, lo=0)
    else:
        v = env.real(name)
    return v, getattr(gu, kind)(v, unit)


class Convert(HarnessBase):
    validate_max = 4
    max_paths = 50

    def __init__(self, kind, u1, u2):
        self.kind, self.u1, self.u2 = kind, u1, u2
        us = si.units_of(kind)
        self.u3 = us[(us.index(u2) + 1) % len(us)]       # a third unit for two-step chains
        self.name = 'convert:%s:%s->%s' % (kind, u1, u2)

    def describe(self):
        return dict(kind=self.kind, source_unit=self.u1, target_unit=self.u2, third_unit=self.u3)

    def finding_key(self, ob, values):
        return 'convert:%s:%s->%s:%s' % (self.kind, self.u1, self.u2, ob.family)

    def run(self, env):
        v, x = _mk(env, self.kind, 'v', self.u1)
        y = x.to(self.u2)
        rec = dict(v=v, copy_value=y.value, copy_unit=y.unit, copy_kind=type(y).__name__,
                   orig_value_after_copy=x.value, orig_unit_after_copy=x.unit, copy_is_new=y is not x)
        back = y.to(self.u1)
        rec.update(back_value=back.value, back_unit=back.unit)
        # the returned copy is the caller's: mutating it in place must not affect a later conversion of the original
        y.to(self.u3, inplace=True)
        again = x.to(self.u2)
        rec.update(again_value=again.value, again_unit=again.unit, orig_value_after_all=x.value, orig_unit_after_all=x.unit)
        v2, z = _mk(env, self.kind, 'v', self.u1)
        r = z.to(self.u2, inplace=True)
        rec.update(inplace_value=z.value, inplace_unit=z.unit, inplace_returns_self=r is z)
        # two-step histories on the object that was converted in place: copy on to a third unit, compare it with a
        # fresh quantity of the same magnitude, convert it back in place
        w = z.to(self.u3)
        rec.update(chain_copy_value=w.value, chain_copy_unit=w.unit)
        fresh = _mk(env, self.kind, 'v', self.u1)[1]
        rec['inplace_equals_fresh'] = bool(z == fresh) and bool(fresh == z) and not bool(z != fresh) \
            and not bool(z < fresh) and not bool(z > fresh)
        z.to(self.u1, inplace=True)
        rec.update(chain_back_value=z.value, chain_back_unit=z.unit)
        return rec

    def obligations(self, out):
        if not out.ok:
            return [holds('conv.no_exception', False, info=repr(out.exc))]
        rec = out.value
        v = T(rec['v'])
        f = z3.RealVal(si.SI[self.kind][self.u1] / si.SI[self.kind][self.u2])
        obs = [
            eq('conv.value_is_si_ratio', rec['copy_value'], v * f, tol=1e-12),
            holds('conv.unit_label', rec['copy_unit'] == self.u2 and rec['inplace_unit'] == self.u2, info=rec['copy_unit']),
            holds('conv.kind_preserved', rec['copy_kind'] == self.kind, info=rec['copy_kind']),
            eq('conv.copy_equals_inplace', rec['copy_value'], rec['inplace_value']),
            eq('conv.original_untouched', rec['orig_value_after_copy'], v),
            holds('conv.original_unit_untouched', rec['orig_unit_after_copy'] == self.u1 and
                  (rec['copy_is_new'] or self.u1 == self.u2)),
            eq('conv.round_trip', rec['back_value'], v, tol=1e-12),
            holds('conv.round_trip_unit', rec['back_unit'] == self.u1),
            holds('conv.inplace_returns_self', rec['inplace_returns_self']),
            eq('conv.second_copy_unaffected_by_mutating_the_first', rec['again_value'], v * f, tol=1e-12),
            holds('conv.second_copy_unit', rec['again_unit'] == self.u2, info=rec['again_unit']),
            eq('conv.original_untouched_by_its_copies', rec['orig_value_after_all'], v),
            holds('conv.original_unit_untouched_by_its_copies', rec['orig_unit_after_all'] == self.u1),
            eq('conv.inplace_then_copy', rec['chain_copy_value'],
               v * z3.RealVal(si.SI[self.kind][self.u1] / si.SI[self.kind][self.u3]), tol=1e-12),
            holds('conv.inplace_then_copy_unit', rec['chain_copy_unit'] == self.u3),
            eq('conv.inplace_round_trip', rec['chain_back_value'], v, tol=1e-12),
            holds('conv.inplace_round_trip_unit', rec['chain_back_unit'] == self.u1),
            holds('conv.inplace_converted_equals_fresh', rec['inplace_equals_fresh']),
        ]
        return obs


OPS = ['lt', 'le', 'gt', 'ge', 'eq', 'ne']


class Compare(HarnessBase):
    validate_max = 6
    max_paths = 400

    def __init__(self, kind, u1, u2):
        self.kind, self.u1, self.u2 = kind, u1, u2
        self.name = 'compare:%s:%s~%s' % (kind, u1, u2)

    def describe(self):
        return dict(kind=self.kind, left_unit=self.u1, right_unit=self.u2)

    def boundary_excuse(self, sym_out, conc_out):
        # `x == x.to(u)` is exact in real arithmetic; its floating-point content (round-trip rounding against the
        # absolute 1e-12 band, recorded finding fp:self_compare:wide) is the FP harness' subject, not a proxy error
        if sym_out.ok and conc_out.ok:
            a, b = sym_out.value, conc_out.value
            return all(a[k] == b[k] for k in OPS)
        return False

    def finding_key(self, ob, values):
        if ob.family.endswith('_everywhere'):
            return 'compare:' + ob.family
        return 'compare:%s:%s~%s:%s' % (self.kind, self.u1, self.u2, ob.family)

    def run(self, env):
        import operator
        a, x = _mk(env, self.kind, 'a', self.u1)
        b, y = _mk(env, self.kind, 'b', self.u2)
        rec = dict(a=a, b=b)
        for op in OPS:
            rec[op] = bool(getattr(operator, op)(x, y))
        # a quantity against its own conversion, both ways round
        xc = x.to(self.u2)
        rec['self_eq_lr'] = bool(x == xc)
        rec['self_eq_rl'] = bool(xc == x)
        rec['self_lt'] = bool(x < xc) or bool(xc < x)
        rec['self_gt'] = bool(x > xc) or bool(xc > x)
        rec['self_ne'] = bool(x != xc) or bool(xc != x)
        return rec

    def obligations(self, out):
        if not out.ok:
            return [holds('cmp.no_exception', False, info=repr(out.exc))]
        rec = out.value
        f1, f2 = si.SI[self.kind][self.u1], si.SI[self.kind][self.u2]
        A, B = T(rec['a']) * z3.RealVal(f1), T(rec['b']) * z3.RealVal(f2)
        differ = z3.Not(close(A, B, 1e-9))
        # the library compares in the left operand's unit with an ABSOLUTE tolerance of 1e-12 (recorded finding):
        # outside that band the answers must follow the SI order
        d_left = T(rec['a']) - T(rec['b']) * z3.RealVal(f2 / f1)
        outside_band = zabs(d_left) > z3.RealVal(Fraction(2, 10**12))
        obs = []
        exp = dict(lt=A < B, le=A < B, gt=A > B, ge=A > B, eq=z3.BoolVal(False), ne=z3.BoolVal(True))
        for op in OPS:
            got = z3.BoolVal(rec[op])
            obs.append(holds('cmp.order_outside_abs_band[%s]' % op, got == exp[op],
                             trigger=z3.And(differ, outside_band) if self.u1 != self.u2 else differ))
            if self.u1 != self.u2:
                obs.append(holds('cmp.order_everywhere[%s]' % op, got == exp[op], trigger=differ))
        obs.append(holds('cmp.self_conversion_equal_both_ways', rec['self_eq_lr'] and rec['self_eq_rl']))
        obs.append(holds('cmp.self_conversion_not_ordered', not rec['self_lt'] and not rec['self_gt'] and not rec['self_ne']))
        return obs


# ----------------------------------------------------------------------------
def specs(tier, seed):
    rnd = random.Random(seed)
    out = []
    for kind in si.KINDS:
        us = si.units_of(kind)
        pairs = [(a, b) for a in us for b in us]
        cells = [('convert', kind, a, b) for a, b in pairs]
        if tier == 'thorough':
            cmp_pairs = pairs
        else:
            cmp_pairs = [(us[0], us[0])] + rnd.sample([p for p in pairs if p[0] != p[1]], min(3, len(pairs) - len(us)))
        cells += [('compare', kind, a, b) for a, b in cmp_pairs]
        n = 40
        for i in range(0, len(cells), n):
            out.append(('cells', kind, i // n, tuple(cells[i:i + n])))
    nfp = 6 if tier == 'quick' else 14
    for part in range(nfp):
        out.append(('fp', tier, part, nfp, seed))
    return out


def build(sp):
    if sp[0] == 'fp':
        from props import c05fp
        return c05fp.FPSelfCompare(sp[1], sp[2], sp[3], sp[4])
    _, kind, i, cells = sp
    return Batch('%s:%d' % (kind, i), [Convert(*c[1:]) if c[0] == 'convert' else Compare(*c[1:]) for c in cells])


JOB_CAP = {'quick': 900, 'thorough': 3600}
REQUIRED_TRIGGERS = {'quick': ('conv.value_is_si_ratio', 'conv.copy_equals_inplace', 'conv.round_trip', 'conv.inplace_then_copy',
                               'conv.inplace_round_trip', 'conv.inplace_converted_equals_fresh',
                               'cmp.order_outside_abs_band', 'cmp.self_conversion_equal_both_ways')}
BOUNDS = {
    'quick': 'conversions: all 13 kinds x every ordered pair of their units (607, exhaustive; copy, in place, there and back, and the '
             'two-step histories in-place-then-copy to a third unit / in-place round trip / comparison of the in-place converted object with a '
             'fresh one), magnitude any real allowed by the kind; comparisons: one same-unit and three seeded cross-unit pairs per kind, both magnitudes any real; FP: '
             'x == x.to(u) in both directions for 12 seeded (kind, unit pair) cells, doubles with |x| in [1e-9,1e9], 25 s/query',
    'thorough': 'comparisons on every ordered unit pair; FP: 39 cells, 100 s/query',
}
OUTSIDE = ('FP mode is bug hunting only (4-operation FP proofs are out of reach: a capped query that ends unknown is '
           'reported as undecided); magnitudes beyond the stated FP range; non-finite values')
STUBS = ['gearpy.units.unit_base.fabs -> ite (R) / fpAbs (FP)']
ASSUMPTIONS = ['R mode: doubles as reals; the independent SI table takes pi as the double math.pi (relative error 4e-17 << 1e-12)',
               'comparisons: "differ by more than rounding" = relative SI difference > 1e-9']
EXPLANATION = ('Symbolic execution of the real unit classes (constructor, to, the six comparison operators) on proxies; the '
               'oracle is an independent table of SI definitions.')
MANIFEST = dict(
    level_text='Symbolic execution of the real constructors, to() (copy and in place) and comparison operators of all 13 quantity '
               'classes over every ordered unit pair, with the magnitudes as solver variables: z3 proves per pair that the '
               'converted value is v*SI(u1)/SI(u2) against an independent SI table (relative 1e-12, for every magnitude), that '
               'copy and in-place conversion agree, the original is untouched and the round trip returns v; and that the six '
               'comparison operators follow the order of the SI magnitudes whenever these differ by more than rounding. The '
               'rounding content of x == x.to(u) is hunted bit-precisely in Float64 (bug hunting only).',
    level_note='Unit pairs exhaustive for conversions; comparisons sampled in quick, exhaustive in thorough; doubles as reals '
               'except in the FP part, which is capped per query.',
    technique='symbolic execution of the real Python code + z3 (LRA per path; QF_FP for the rounding kernel); concrete replay',
    design_ref='DESIGN.md section 5 C05',
)
