"""C08  DC motor torque and current follow the documented characteristic.

R mode: all motor constants, the speed and the duty cycle are solver variables;
the real constructor, pwm setter, compute_torque and compute_electric_current run
on proxies; z3 proves both laws, the corollaries, continuity at the dead-zone
boundary and odd symmetry.  FP mode (symx.fp): the same code on Float64 proxies
hunts the floating-point neighbours of the dead-zone boundary.
"""
from __future__ import annotations

import random
from fractions import Fraction

import z3

from oracles import chain as CH
from oracles import si
from symx.core import T, SR
from symx.harness import HarnessBase
from symx.ob import eq, holds, close, zabs, Ob

ID = 'C08'


def _q(gu, kind, v_si, unit, si_unit):
    if unit == si_unit:
        return getattr(gu, kind)(v_si, unit)
    f = float(si.SI[kind][si_unit] / si.SI[kind][unit])
    return getattr(gu, kind)(v_si * f, unit)


class MotorLaw(HarnessBase):
    validate_max = 30
    max_paths = 500

    CONST = dict(Tmax=0.01953125, w0=1000.0, i0=0.25, imax=2.0)

    def __init__(self, currents=True, units=('Nm', 'rad/s', 'A', 'A', 'rad/s'), twin=False, tag='', sym_consts=True,
                 second_eval=False):
        self.second_eval = second_eval
        self.sym_consts = sym_consts
        self.currents = currents
        self.units = tuple(units)
        self.twin = twin
        self.name = 'motor_law:%s:%s%s%s%s' % ('currents' if currents else 'nocurrents', '/'.join(self.units),
                                               ':odd' if twin else '', ('' if sym_consts else ':state') + (':second_eval_%s' % second_eval if second_eval else ''), tag)

    def describe(self):
        return dict(currents=self.currents, units=dict(zip(('Tmax', 'w0', 'i0', 'imax', 'w'), self.units)), twin=self.twin)

    def finding_key(self, ob, values):
        return 'motor_law:%s:%s' % ('currents' if self.currents else 'nocurrents', ob.family)

    def _motor(self, env, gu, P):
        import gearpy.mechanical_objects as mo
        uT, uw0, ui0, uim, uw = self.units
        kw = dict(name='m', inertia_moment=gu.InertiaMoment(1, 'kgm^2'),
                  no_load_speed=_q(gu, 'AngularSpeed', P['w0'], uw0, 'rad/s'),
                  maximum_torque=_q(gu, 'Torque', P['Tmax'], uT, 'Nm'))
        if self.currents:
            kw.update(no_load_electric_current=_q(gu, 'Current', P['i0'], ui0, 'A'),
                      maximum_electric_current=_q(gu, 'Current', P['imax'], uim, 'A'))
        return mo.DCMotor(**kw)

    def _eval(self, env, gu, P, w, D):
        m = self._motor(env, gu, P)
        se = getattr(self, 'second_eval', False)
        if se:
            # the same motor object was first evaluated in another state: the laws must be memoryless.
            # se == 'inplace': first evaluation at the SAME duty cycle, then every motor constant (the user's own quantity
            # objects) is converted in place to another unit - physically nothing changed
            m.pwm = D if se == 'inplace' else -0.625
            m.angular_speed = gu.AngularSpeed(-37.5, 'rad/s')
            m.compute_torque()
            if self.currents:
                m.compute_electric_current()
            if se == 'inplace':
                m.maximum_torque.to('kgfcm' if m.maximum_torque.unit != 'kgfcm' else 'mNm', inplace=True)
                m.no_load_speed.to('rpm' if m.no_load_speed.unit != 'rpm' else 'deg/s', inplace=True)
                if self.currents:
                    m.no_load_electric_current.to('mA' if m.no_load_electric_current.unit != 'mA' else 'uA', inplace=True)
                    m.maximum_electric_current.to('uA' if m.maximum_electric_current.unit != 'uA' else 'mA', inplace=True)
        m.pwm = D
        m.angular_speed = _q(gu, 'AngularSpeed', w, self.units[4], 'rad/s')
        m.compute_torque()
        out = dict(torque=si.si_val(m.driving_torque))
        if self.currents:
            m.compute_electric_current()
            out['current'] = si.si_val(m.electric_current)
        return out

    def run(self, env):
        import gearpy.units as gu
        if self.sym_consts:
            # magnitudes bounded away from 0: the library's absolute comparison tolerance (1e-12, C05) would
            # otherwise reject valid tiny constants in the constructor
            P = dict(Tmax=env.real('Tmax', lo=1e-6, hi=1e6), w0=env.real('w0', lo=1e-6, hi=1e6))
            if self.currents:
                P['i0'] = env.real('i0', lo=0, hi=1e6)
                P['imax'] = env.real('imax', lo=1e-6, hi=1e6)
                env.assume(T(P['i0']) + z3.RealVal(Fraction(1, 10**6)) <= T(P['imax']))
        else:
            P = dict(self.CONST) if self.currents else dict(Tmax=self.CONST['Tmax'], w0=self.CONST['w0'])
        w = env.real('w')
        D = env.real('D', lo=-1, hi=1)
        rec = dict(P=P, w=w, D=D)
        try:
            rec['a'] = self._eval(env, gu, P, w, D)
            if self.twin:
                rec['b'] = self._eval(env, gu, P, -w, -D)
        except (ValueError, ZeroDivisionError, TypeError) as e:
            rec['raised'] = '%s: %s' % (type(e).__name__, str(e)[:80])
        return rec

    def obligations(self, out):
        if not out.ok:
            return [holds('law.no_other_exception', False, info=repr(out.exc))]
        rec = out.value
        P, w, D = rec['P'], T(rec['w']), T(rec['D'])
        Tmax, w0 = T(P['Tmax']), T(P['w0'])
        obs = []
        if 'raised' in rec:
            # the only documented division hazard: D == 0 outside the dead zone is impossible (|D| <= i0/imax covers 0)
            return [holds('law.never_raises_for_valid_inputs', False, info=rec['raised'])]
        a = rec['a']
        if not self.currents:
            obs.append(eq('law.torque_nocurrent', a['torque'], Tmax * (1 - w / w0), scale=(Tmax,)))
            obs.append(eq('law.stall_torque', a['torque'], Tmax, trigger=(w == 0)))
            obs.append(eq('law.noload_zero_torque', a['torque'], 0, trigger=(w == w0), scale=(Tmax,)))
        else:
            i0, imax = T(P['i0']), T(P['imax'])
            law_t = CH.motor_torque_law(w, D, w0, Tmax, i0, imax)
            obs.append(eq('law.torque', a['torque'], law_t, scale=(Tmax, Tmax * w / w0)))
            law_i = CH.motor_current_law(a['torque'], D, Tmax, i0, imax)
            obs.append(eq('law.current', a['current'], law_i, scale=(imax,)))
            dead = zabs(D) * imax <= i0
            obs.append(eq('law.dead_zone_zero_torque', a['torque'], 0, trigger=dead))
            obs.append(eq('law.dead_zone_current', a['current'], D * imax, trigger=dead, scale=(imax,)))
            obs.append(eq('law.stall_gives_Tmax', a['torque'], Tmax, trigger=z3.And(D == 1, w == 0)))
            obs.append(eq('law.stall_gives_imax', a['current'], imax, trigger=z3.And(D == 1, w == 0)))
            obs.append(eq('law.noload_gives_zero_torque', a['torque'], 0, trigger=z3.And(D == 1, w == w0), scale=(Tmax,)))
            obs.append(eq('law.noload_gives_i0', a['current'], i0, trigger=z3.And(D == 1, w == w0), scale=(imax,)))
            # continuity across the dead-zone boundary: the outer branch evaluated at |D| = i0/imax meets the inner value
            #   torque:  Tmax(D) -> 0 as D*imax -> i0 ;   current: (D*imax - i0)*T/Tmax(D) + i0  ->  i0 = D*imax there
            outer_t = Tmax * (D * imax - i0) / (imax - i0) * (1 - w / (D * w0))
            obs.append(eq('law.torque_continuous_at_boundary', outer_t, 0, trigger=z3.And(D * imax == i0, D > 0),
                          scale=(Tmax,)))
        if self.twin and 'b' in rec and self.currents:
            # (a motor without current data has no duty-cycle dependence at all: Tmax*(1-w/w0) is not odd)
            b = rec['b']
            obs.append(eq('law.torque_odd', b['torque'], -T(a['torque'])))
            obs.append(eq('law.current_odd', b['current'], -T(a['current'])))
        return obs


# ----------------------------------------------------------------------------
TU, WU, IU = list(si.SI['Torque']), list(si.SI['AngularSpeed']), list(si.SI['Current'])


def specs(tier, seed):
    rnd = random.Random(seed)
    SIU = ('Nm', 'rad/s', 'A', 'A', 'rad/s')
    S = [('law', True, SIU, False, True), ('law', False, SIU, False, True), ('law', True, SIU, True, True),
         ('law', True, SIU, False, True, True), ('law', False, SIU, False, True, True),
         ('law', True, SIU, False, False, 'inplace'), ('law', False, SIU, False, False, 'inplace'),
         ('law', True, ('mNm', 'rps', 'mA', 'A', 'rad/s'), False, False, 'inplace')]
    # non-SI units: exactness is lost to the unit factors, so (linearity discipline) the constants are concrete
    # and the speed and the duty cycle stay symbolic
    n = 8 if tier == 'quick' else 40
    for i in range(n):
        u = (rnd.choice(TU), rnd.choice(WU), rnd.choice(IU), rnd.choice(IU), rnd.choice(WU))
        S.append(('law', i % 4 != 3, u, i % 5 == 0, False))
    if tier == 'thorough':
        for u in TU:
            S.append(('law', True, (u, 'rpm', 'mA', 'A', 'deg/s'), False, False))
        for u in WU:
            S.append(('law', True, ('mNm', u, 'A', 'mA', u), False, False))
    for part in range(8):
        S.append(('fp', tier, part, 8))
    return S


def build(sp):
    if sp[0] == 'fp':
        from props import c08fp
        return c08fp.FPDeadZone(sp[1], sp[2], sp[3])
    _, cur, units, twin, symc = sp[:5]
    return MotorLaw(cur, units, twin, sym_consts=symc, second_eval=(len(sp) > 5 and sp[5]))


JOB_CAP = {'quick': 900, 'thorough': 3000}
REQUIRED_TRIGGERS = {'quick': ('law.torque', 'law.current', 'law.dead_zone_zero_torque', 'law.dead_zone_current',
                               'law.stall_gives_Tmax', 'law.stall_gives_imax', 'law.noload_gives_zero_torque',
                               'law.noload_gives_i0', 'law.torque_continuous_at_boundary', 'law.torque_odd',
                               'law.current_odd', 'law.torque_nocurrent')}
BOUNDS = {
    'quick': 'R mode: Tmax, w0, i0, imax (0<=i0<imax), speed (any sign, beyond no-load speed too) and duty cycle in [-1,1] '
             'all symbolic; SI units + 8 seeded unit assignments of the five quantities; odd symmetry by a twin evaluation '
             'at (-D,-w); each law also evaluated on a motor object that was evaluated before (in another state; or at the same duty cycle followed by an in-place unit conversion of every motor constant). FP mode: the same methods on IEEE-754 double proxies, all finite doubles with magnitudes in '
             '[1e-6,1e6], 60 s per query',
    'thorough': 'R mode: 40 seeded unit assignments + every torque and speed unit once; FP mode: 240 s per query',
}
OUTSIDE = ('FP mode is bug hunting only: an FP query that ends unknown/timeout is reported as not decided, never as proof; '
           'non-finite inputs')
STUBS = ['gearpy.units.unit_base.fabs -> ite']
ASSUMPTIONS = ['R mode: doubles as reals; motor constants valid per the constructor (Tmax, w0, imax > 0, 0 <= i0 < imax)',
               'unit factors compared at relative 1e-9']
EXPLANATION = ('Symbolic execution of the real DCMotor constructor, pwm setter, compute_torque and '
               'compute_electric_current on proxies; z3 proves the documented piecewise laws on every path.')
MANIFEST = dict(
    level_text='Symbolic execution of the real DCMotor code with every motor constant, the speed and the duty cycle as solver '
               'variables (exact reals): on each of the code\'s paths z3 proves torque and current equal the documented '
               'piecewise characteristic, the four corollaries (stall, no-load), continuity at the dead-zone boundary and '
               'odd symmetry, in SI and in seeded non-SI unit assignments. A bit-precise Float64 run of the same methods '
               'hunts exceptions and non-zero torque at the floating-point neighbours of the boundary (bug hunting only).',
    level_note='Real-arithmetic verdicts for all parameter values; floating-point part bounded by per-query caps; trusts z3, '
               'the proxies (validated per path against concrete runs) and the oracle written from the property statement.',
    technique='symbolic execution of the real Python code + z3 (NRA per path; QF_FP for the boundary kernel); concrete replay',
    design_ref='DESIGN.md section 5 C08',
)
