"""C11  The time axis is the uniform grid 0, dt, ..., T and never overruns T.

R mode: the real Solver.run with a symbolic dt (T = n*dt exactly).  Float64 mode
(the substance): Solver.run's own arithmetic on IEEE-754 double proxies, one
exploration per concrete n, dt any double in [1e-4, 1e4], T obtained as dt*n or as
the decimal literal n*m/10^e for dt = m/10^e."""
from __future__ import annotations

import time

import z3

from oracles import chain as CH
from oracles import si
from props import sim
from symx import fp, stubs
from symx.core import T
from symx.fp import SF, FPEngine, FT
from symx.ob import eq, holds

ID = 'C11'


class GridSim(sim.SimHarness):
    """R mode: instants are t0 + k*dt"""

    def ob_C11(self, rec):
        obs = []
        dt = T(rec['dt'])
        expected = 0
        for i, r in enumerate(rec['runs']):
            fresh = r['start'] == 0
            full_end = (r['K'] + 1) if fresh else r['start'] + r['K']
            if r['stopped']:
                obs.append(holds('grid.stopped_run_is_a_prefix[run=%d]' % i, r['end'] <= full_end))
            else:
                obs.append(holds('grid.number_of_instants[run=%d]' % i, r['end'] == full_end,
                                 info='run %d: %d instants recorded, %d expected' % (i, r['end'], full_end)))
        obs.append(holds('grid.first_instant_is_zero', len(rec['time']) > 0))
        if rec['time']:
            obs.append(eq('grid.starts_at_zero', rec['time'][0], 0))
        # each run() call lays its own grid: t_start + j*dt of that call (the first call starts at 0)
        for k in range(1, len(rec['time'])):
            exp = k * dt
            for r in rec['runs']:
                s = r['start']
                if (1 if s == 0 else s) <= k < r['end']:
                    exp = T(r['dt']) * k if s == 0 else T(rec['time'][s - 1]) + (k - s + 1) * T(r['dt'])
            obs.append(eq('grid.uniform[k=%d]' % k, rec['time'][k], exp, tol=1e-9))
        return obs


class FPGrid:
    """Float64 mode through the real Solver.run"""

    def __init__(self, n, unit, mode, tier='quick', cont=0):
        self.n, self.unit, self.mode, self.tier, self.cont = n, unit, mode, tier, cont
        self.name = 'fp:grid:n=%d:%s:%s%s' % (n, unit, mode, ':after%d' % cont if cont else '')
        self.cap = (300 if mode == 'mul' else 900) if tier == 'quick' else 900   # idle: hardest query 45 s; the margin is for a loaded machine

    def _model(self):
        import gearpy.units as gu
        import gearpy.mechanical_objects as mo
        from gearpy.utils import add_fixed_joint, add_gear_mating
        from gearpy.powertrain import Powertrain
        # equilibrium configuration: motor at its no-load speed, no load -> nothing but the time axis depends on dt
        m = mo.DCMotor(name='m', inertia_moment=gu.InertiaMoment(1, 'kgm^2'), no_load_speed=gu.AngularSpeed(16, 'rad/s'),
                       maximum_torque=gu.Torque(1, 'Nm'))
        a = mo.SpurGear(name='a', n_teeth=10, inertia_moment=gu.InertiaMoment(1, 'kgm^2'))
        b = mo.SpurGear(name='b', n_teeth=20, inertia_moment=gu.InertiaMoment(1, 'kgm^2'))
        add_fixed_joint(master=m, slave=a)
        add_gear_mating(master=a, slave=b, efficiency=1)
        b.external_torque = lambda time, angular_position, angular_speed: gu.Torque(0, 'Nm')
        pt = Powertrain(motor=m)
        b.angular_position = gu.AngularPosition(0, 'rad')
        b.angular_speed = gu.AngularSpeed(8, 'rad/s')
        return pt

    def _go(self, dt, Tq_value, cont_dt=None):
        import gearpy.units as gu
        from gearpy.solver import Solver
        pt = self._model()
        s = Solver(powertrain=pt)
        if self.cont:
            s.run(time_discretization=gu.TimeInterval(0.5, self.unit), simulation_time=gu.TimeInterval(0.5 * self.cont, self.unit))
        n0 = len(pt.time)
        t_prev = pt.time[-1].value if pt.time else 0.0
        s.run(time_discretization=gu.TimeInterval(dt, self.unit), simulation_time=Tq_value)
        return n0, t_prev, [t.value for t in pt.time], [t.unit for t in pt.time]

    def _inputs(self, env=None, vals=None):
        import gearpy.units as gu
        if self.mode == 'mul':
            dt = env.real('dt', lo=1e-4, hi=1e4) if env is not None else vals['dt']
            Tq = gu.TimeInterval(dt, self.unit) * self.n
            return dt, Tq
        e = int(self.mode[3:])          # 'dec2' -> dt = m / 10^2
        if env is not None:
            mv = z3.BitVec('m', 12)
            env.eng._bv = mv
            env.assume(z3.And(z3.UGE(mv, 1), z3.ULE(mv, 500 if self.tier == 'quick' else 4000)))
            mfp = z3.fpSignedToFP(fp.RNE, z3.ZeroExt(20, mv), fp.F64)
            nm = z3.fpSignedToFP(fp.RNE, z3.ZeroExt(20, mv) * z3.BitVecVal(self.n, 32), fp.F64)
            ten = fp._c(float(10 ** e))
            dt = SF(z3.fpDiv(fp.RNE, mfp, ten))
            Tv = SF(z3.fpDiv(fp.RNE, nm, ten))
        else:
            m = int(vals['m'])
            dt = m / 10 ** e
            Tv = (self.n * m) / 10 ** e
        return dt, gu.TimeInterval(Tv, self.unit)

    def run(self, env):
        dt, Tq = self._inputs(env=env)
        n0, t_prev, times, units = self._go(dt, Tq)
        return dict(n0=n0, t_prev=t_prev, times=times, T=Tq.value, dt=dt, units=units)

    def concrete(self, vals):
        dt, Tq = self._inputs(vals=vals)
        n0, t_prev, times, units = self._go(dt, Tq)
        return n0, t_prev, times, Tq.value

    def process(self, want_functions=False):
        t0 = time.time()
        eng = FPEngine(max_paths=40, max_seconds=120)
        eng.round_candidates = [self.n, self.n + 1, self.n - 1, self.n + 2, self.n - 2]
        with stubs.installed():
            results = eng.explore(self.run)
        R = dict(harness=self.name, paths=len(results), ok_paths=0, exc_paths=0, pruned=0, unsupported=0, domain=0,
                 obligations=0, discharged=0, discharged_exact=0, discharged_robust=0, violations=[], inconclusive=[],
                 validated=0, validation_boundary=0, triggers={}, samples=[], functions=[], exc_classes={},
                 stats=dict(queries=0, solver_s=0.0, unknown=0, branches=eng.stats['branches']), extra={})
        first = self.cont + 1 if self.cont else 1
        for res in results:
            if res.status == 'pruned':
                # the step count is outside n-2..n+2: must be infeasible
                claim_path = res.path
                bad = None
            elif res.status == 'exc':
                # the run raised: for valid (dt, n) that must be infeasible
                R['exc_paths'] += 1
                claim_path = res.path
                bad = 'exception %s' % type(res.exc).__name__
            elif res.status != 'ok':
                R['inconclusive'].append('FP path %s: %r' % (res.status, res.exc))
                continue
            else:
                R['ok_paths'] += 1
                rec = res.value
                new = len(rec['times']) - rec['n0'] + (1 if rec['n0'] == 0 else 0)   # instants of this run incl. its start
                steps = len(rec['times']) - (rec['n0'] if rec['n0'] else 1)
                if steps == self.n:
                    # right count: the last instant must not overrun T (relative 1e-12) -- one more query
                    last, Tv = rec['times'][-1], rec['T']
                    tp = rec['t_prev'] if rec['n0'] else 0.0
                    lim = z3.fpMul(fp.RNE, z3.fpAdd(fp.RNE, FT(tp), FT(Tv)), fp._c(1 + 1e-12))
                    claim_path = res.path + [z3.fpGT(FT(last), lim)]
                    bad = 'overrun'
                else:
                    claim_path = res.path
                    bad = 'count'
            R['obligations'] += 1
            ts = time.time()
            names = dict(eng._vars)
            r, vals, who = self._solve(claim_path, eng, names)
            R['stats']['queries'] += 1
            R['stats']['solver_s'] += time.time() - ts
            if r == 'unsat':
                R['discharged'] += 1
                R['discharged_exact'] += 1
                R['triggers']['fp.grid'] = R['triggers'].get('fp.grid', 0) + 1
            elif r == 'sat' and res.status == 'exc':
                try:
                    self.concrete(vals)
                    R['inconclusive'].append('FP model for %s did not reproduce: %r' % (bad, vals))
                except Exception as e:  # noqa
                    R['violations'].append(dict(key='grid:run_raises:%s' % type(e).__name__, harness=self.name,
                                                describe=dict(n=self.n, unit=self.unit, mode=self.mode), obligation='fp.grid',
                                                failed=['fp.grid'], inputs=vals, detail='Solver.run raised %r' % (e,),
                                                outcome='exc'))
            elif r == 'sat':
                n0, tp, times, Tv = self.concrete(vals)
                steps = len(times) - (n0 if n0 else 1)
                over = times[-1] > ((tp if n0 else 0.0) + Tv) * (1 + 1e-12)
                if steps != self.n or over:
                    key = 'grid:overshoot' if steps > self.n or over else 'grid:undershoot'
                    if key not in [v['key'] for v in R['violations']]:
                        R['violations'].append(dict(
                            key=key, harness=self.name, describe=dict(n=self.n, unit=self.unit, mode=self.mode, cont=self.cont),
                            obligation='fp.grid', failed=['fp.grid'], inputs=vals,
                            detail='%d steps recorded for round(T/dt)=%d, last instant %r, T=%r (inputs %r)'
                                   % (steps, self.n, times[-1], Tv, vals), outcome='ok'))
                else:
                    R['inconclusive'].append('FP model did not reproduce: %r' % (vals,))
            else:
                R['stats']['unknown'] += 1
                R['inconclusive'].append('FP query undecided within %ds (%s, %s)' % (self.cap, self.name, bad or 'pruned'))
        if len(R['samples']) < 1:
            R['samples'].append(dict(harness=self.name, n=self.n, unit=self.unit, T_construction=self.mode, mode='Float64'))
        R['wall_s'] = time.time() - t0
        return R

    def _solve(self, formulas, eng, names):
        if self.mode == 'mul':
            return fp.solve_race(formulas, names, self.cap)
        # decimal mode: the free variable is the bit-vector m (z3 only: the model reader of the cvc5 race handles doubles)
        s = z3.Solver()
        s.set('timeout', self.cap * 1000)
        for f in formulas:
            s.add(f)
        r = s.check()
        if r == z3.sat:
            return 'sat', dict(m=s.model().eval(eng._bv, model_completion=True).as_long()), 'z3'
        if r == z3.unsat:
            return 'unsat', None, 'z3'
        return 'unknown', None, None

    def replay(self, data):
        n0, tp, times, Tv = self.concrete(data['inputs'])
        steps = len(times) - (n0 if n0 else 1)
        print('replay: %d steps for n=%d, last=%r, T=%r' % (steps, self.n, times[-1], Tv))
        if steps != self.n or times[-1] > ((tp if n0 else 0.0) + Tv) * (1 + 1e-12):
            print('VIOLATION property=C11 replay=<given>')
            return 1
        return 0


def specs(tier, seed):
    S = []
    for t in ('T1', 'T3'):
        for K in (2, 3) if tier == 'quick' else (2, 3, 4):
            S.append(('r', t, (('full', True), ('schedule', (('run', K),)))))
    S.append(('r', 'T3', (('full', True), ('schedule', (('run', 2), ('run', 2))))))
    for t, K in (('T1', 6), ('T4', 4), ('T6', 6)):
        S.append(('r', t, (('schedule', (('run', K),)),)))
        S.append(('r', t, (('schedule', (('run', 2), ('run', 3))),)))
    S.append(('r', 'T1', (('schedule', (('run_stop', 4, ('encoder', 2, 'greater_than', 'rad')),)),)))
    S.append(('r', 'T1', (('schedule', (('run', 3),)), ('dt_unit', 'ms'))))
    S.append(('r', 'T1', (('schedule', (('run', 2), ('reset',), ('reinit',), ('run', 3))),)))
    S.append(('r', 'T4', (('schedule', (('run', 2), ('reset',), ('reinit',), ('run', 2), ('run', 2))),)))
    S.append(('r', 'T1', (('schedule', (('run', 2), ('run', 2, 'hour'))),)))
    # dt and the simulation time of one call given in different units (fresh run, continuation, another dt value)
    S.append(('r', 'T1', (('schedule', (('run', 3, 'ms', 1, 'sec'),)), ('tag', ':dt_ms_T_sec'))))
    S.append(('r', 'T1', (('schedule', (('run', 2), ('run', 3, 'ms', 1, 'sec'))), ('tag', ':cont_dt_ms_T_sec'))))
    S.append(('r', 'T3', (('schedule', (('run', 2, 'sec', 1, 'min'), ('run', 2, 'min', 2, 'ms'))), ('tag', ':cont_dt_min_T_ms'))))
    # the dt / T objects handed to run() were built in another unit and converted in place (also there and back) before
    S.append(('r', 'T1', (('schedule', (('run', 3, 'ms', 1, 'ms', (None, 'sec')),)), ('tag', ':T_inplace_sec_ms'))))
    S.append(('r', 'T1', (('schedule', (('run', 2, 'sec', 1, 'min', ('ms', 'sec')), ('run', 3, 'min', 1, 'sec', ('sec', 'hour')))),
                          ('tag', ':dt_T_inplace_cont'))))
    ns = (2, 3, 7, 10, 30) if tier == 'quick' else tuple(range(2, 101))
    for n in ns:
        S.append(('fp', n, 'sec', 'mul', tier, 0))
        if tier == 'thorough' and n in (2, 3, 5, 7, 10, 20, 30, 50, 100):
            for e in (1, 2, 3):
                S.append(('fp', n, 'sec', 'dec%d' % e, tier, 0))
        elif n == 7:
            for e in (1, 2):
                S.append(('fp', n, 'sec', 'dec%d' % e, tier, 0))
    for u in ('min', 'hour', 'ms'):
        S.append(('fp', 10, u, 'mul', tier, 0))
    for n1 in (2, 7):
        S.append(('fp', 7, 'sec', 'mul', tier, n1))
    return S


def build(sp):
    if sp[0] == 'fp':
        _, n, unit, mode, tier, cont = sp
        return FPGrid(n, unit, mode, tier, cont)
    _, topo, kw = sp
    return GridSim(topo, props=('C11',), **dict(kw))


JOB_CAP = {'quick': 3000, 'thorough': 3600}
REQUIRED_TRIGGERS = {'quick': ('grid.number_of_instants', 'grid.uniform', 'grid.stopped_run_is_a_prefix', 'fp.grid')}
BOUNDS = {
    'quick': 'R mode: Solver.run with a symbolic dt (every parameter symbolic), K in {2,3}, continuation 2+2; concrete dt K=6, 2+3; stop prefix, reset + rerun (+ continuation) on the same Solver, '
             'dt in ms, continuation in hours, dt and T of one call in different units (fresh and continued, other dt value), dt / T objects built in one unit and converted in place to another before the call; Float64 mode through the real Solver.run on an equilibrium configuration: one '
             'exploration per n in {2,3,7,10,30}, dt ANY double in [1e-4,1e4], T = dt*n through TimeInterval.__mul__; decimal '
             'dt = m/10^e with m <= 500, e in {1,2} and T the decimal literal n*m/10^e for n = 7; units sec (all n), '
             'min/hour/ms (n=10); continuation after a first run of 2 and 7 steps; query caps 300 s (900 s decimal; the hardest takes 45 s on an idle machine), z3 raced against cvc5',
    'thorough': 'Float64 mode for every n in 2..100 (T = dt*n); decimal dt with m <= 4000 and e in {1,2,3} for n in {2,3,5,7,10,20,30,50,100}; 900 s per query',
}
OUTSIDE = 'n > 100; dt outside [1e-4,1e4]; n symbolic (probe: unknown); dt and T in different units in FP mode'
STUBS = sim.STUBS + ['FP mode: gearpy.solver.np.arange = exact model of numpy (_calc_length ceil of the double quotient, '
                     'DOUBLE_fill start + i*delta), only reached if the code under test calls arange',
                     'round() of a double proxy = fpRoundToIntegral(RNE), forked over n-2..n+2 (outside: must be infeasible)']
ASSUMPTIONS = ['FP: equilibrium configuration (motor at no-load speed, zero load) so that only the time axis depends on dt',
               'finite-operand simplifications x*0 -> 0, x+0 -> x in the FP proxies']
EXPLANATION = ('R mode: symbolic execution of Solver.run with symbolic dt. FP mode: the same code on Float64 proxies; per '
               'concrete n the paths with a step count other than n, or a last instant beyond T, must be infeasible (QF_FP).')
MANIFEST = dict(
    level_text='The real Solver.run executed on proxies. In exact reals (dt symbolic) z3 proves that a fresh run records 0 and '
               'then the instants k*dt, a continuation t_prev + k*dt, a stopped run a prefix. Bit-precisely (Float64, dt ranging '
               'over all doubles in [1e-4,1e4], one exploration per n) the solver shows that no dt makes the run record a number '
               'of steps other than round(T/dt) = n or a last instant beyond T, for T = dt*n and for decimal literals; '
               'counterexamples (the numpy.arange overshoot this property was written for) are replayed on the unpatched library.',
    level_note='FP verdicts are per concrete n within the stated n and dt ranges and the per-query cap (an undecided query is '
               'inconclusive, exit 2, never a pass); trusts z3/cvc5 and the Float64 proxies.',
    technique='symbolic execution of the real Python code on Float64 proxies + z3/cvc5 (QF_FP, QF_BVFP) per path; concrete replay',
    design_ref='DESIGN.md section 5 C11',
)
