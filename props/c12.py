"""C12  Continuation and reset/rerun reproduce the same history

Runs the shared simulation harness (props/sim.py) with this property's obligations."""
from props import sim

ID = 'C12'


def specs(tier, seed):
    S = []
    R4 = (('run', 4),)
    for t, ctl in (('T1', None), ('T3', ('fixed', 0.5)), ('T4', None), ('T6', None)):
        S.append(('twin', t, (('control', ctl), ('schedule_a', R4), ('schedule_b', (('run', 2), ('run', 2))))))
    for u in ('ms', 'min', 'hour'):
        S.append(('twin', 'T1', (('schedule_a', R4), ('schedule_b', (('run', 2), ('run', 2, u))), ('tag', ':cont_' + u))))
    # the continuation gives dt and T in two different units, both other than the first run's
    S.append(('twin', 'T1', (('schedule_a', R4), ('schedule_b', (('run', 2), ('run', 2, 'ms', 1, 'min'))), ('tag', ':cont_ms_min'))))
    R2 = (('run', 2),)
    for t in ('T1', 'T4', 'T7'):
        S.append(('twin', t, (('schedule_a', R2), ('schedule_b', (('run', 2), ('reset',), ('reinit',), ('run', 2))))))
        S.append(('twin', t, (('schedule_a', R2),
                              ('schedule_b', (('run', 2), ('reset',), ('reinit',), ('newsolver',), ('run', 2))))))
    S.append(('twin', 'T3', (('control', ('arb', -1, 1)), ('schedule_a', R2),
                             ('schedule_b', (('run', 2), ('reset',), ('reinit',), ('run', 2))))))
    # self-locking chain with a control active from the first instant: an arbitrary duty cycle per instant / a timer rule
    # commanding -0.5 from t = 0. The motor's duty cycle BEFORE the run (the default 1) differs from the first one the
    # control commands: reset() must give back the former, because the first lock test of a run reads it
    S.append(('twin', 'T4', (('control', ('arb', -1, 1)), ('schedule_a', R2),
                             ('schedule_b', (('run', 2), ('reset',), ('reinit',), ('run', 2))), ('tag', ':first_duty_arbitrary'))))
    S.append(('twin', 'T4', (('control', ('const', ((0.0, 10.0, -0.5),))), ('schedule_a', R2),
                             ('schedule_b', (('run', 2), ('reset',), ('reinit',), ('run', 2))), ('tag', ':first_duty_not_positive'))))
    # built-in timer rules (ConstantPWM) on a control object that is reused after the reset
    cp = ('const', ((0.0, 0.125, 0.5), (0.3, 1.0, -0.75)))
    for t in ('T3', 'T4'):
        S.append(('twin', t, (('control', cp), ('schedule_a', (('run', 3),)),
                              ('schedule_b', (('run', 3), ('reset',), ('reinit',), ('run', 3))))))
        S.append(('twin', t, (('control', cp), ('schedule_a', (('run', 4),)), ('schedule_b', (('run', 2), ('run', 2))))))
    # a timer rule that starts later: the duty cycle at the first instant is the motor's default, the one in force when the
    # run ends is 0 / negative; after reset only position and speed are re-applied (reset itself must restore the rest);
    # motors with (T4) and without (T11) current data
    for t in ('T4', 'T11'):
        for val in (0.0, -0.5):
            S.append(('twin', t, (('control', ('const', ((0.2, 1.0, val),))), ('schedule_a', (('run', 3),)),
                                  ('schedule_b', (('run', 3), ('reset',), ('reinit_state',), ('run', 3))),
                                  ('tag', ':late_rule_%s' % val))))
    if tier == 'thorough':
        R5 = (('run', 5),)
        for t in ('T1', 'T2', 'T4', 'T5', 'T7'):
            S.append(('twin', t, (('schedule_a', R5), ('schedule_b', (('run', 2), ('run', 3))))))
            S.append(('twin', t, (('schedule_a', R5), ('schedule_b', (('run', 3), ('run', 2))))))
        for u1 in ('sec', 'min', 'hour', 'ms'):
            for u2 in ('sec', 'min', 'hour', 'ms'):
                if u1 != u2 and not (u1 == 'sec' and u2 in ('ms', 'min', 'hour')):
                    S.append(('twin', 'T1', (('dt_unit', u1), ('schedule_a', R4),
                                             ('schedule_b', (('run', 2), ('run', 2, u2))), ('tag', ':%s_%s' % (u1, u2)))))
        for i in range(8):
            S.append(('twin', 'S%d_%d' % (3 + i, i), (('schedule_a', R4), ('schedule_b', (('run', 2), ('run', 2))),
                                                     ('seed', seed))))
            S.append(('twin', 'S%d_%d' % (3 + i, i), (('schedule_a', R2), ('seed', seed),
                                                     ('schedule_b', (('run', 2), ('reset',), ('reinit',), ('run', 2))))))
    return S


def build(sp):
    _, topo, kw = sp
    return sim.TwinHarness(topo, **dict(kw))


JOB_CAP = {'quick': 900, 'thorough': 2400}
REQUIRED_TRIGGERS = {'quick': ('same.number_of_instants', 'same.time', 'same.history')}
BOUNDS = {
    'quick': 'twin executions inside one exploration, configuration and dt concrete (dt = 1/8 s), initial state and one '
             'load value per instant symbolic: run(4) vs run(2)+run(2) on T1,T3(fixed duty),T4,T6; continuation '
             'expressed in ms / min / hour after a run in sec, and with dt in ms and T in min (T1); run(2) vs run(2)+reset+re-init+run(2) with the same '
             'and with a new Solver on T1, T4, T7 (self-locking, may end held) and T3 with an arbitrary duty per instant; built-in '
             'ConstantPWM timer rules on a control object reused across reset and continuation (T3, T4); a timer rule starting after the first instant (run ends with duty 0 / -0.5) with only position and speed re-applied after reset, motors with and without current data (T4, T11)',
    'thorough': 'quick + run(5) vs 2+3 and 3+2, all 4x3 ordered pairs of time units, T2/T5/T7, 8 seeded chains',
}
OUTSIDE = 'splits with more than 5 steps in total; more than one reset; symbolic dt (would enter the loop bound of arange)'
STUBS = sim.STUBS
ASSUMPTIONS = sim.ASSUMPTIONS
EXPLANATION = sim.EXPLANATION
MANIFEST = dict(
    level_text='Twin bounded symbolic executions of the real Solver.run/Powertrain.reset on the same model with shared symbolic initial state and shared per-instant load symbols; z3 proves per path that the two schedules (one run vs run+continuation, also in other time units; run vs run+reset+re-init+rerun on the same or a new Solver) produce the same time axis and identical histories for every element and variable; counterexamples are replayed on the unpatched library.',
    level_note=sim.LEVEL_NOTE,
    technique=sim.TECHNIQUE,
    design_ref='DESIGN.md section 5 C12',
)
