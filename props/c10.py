"""C10  Declaring a mating or joint sets a consistent, validated relation.

Every ordered pair of element kinds x the three relation functions is executed on
real objects with the efficiency / friction coefficient / modules as solver
variables over all reals; accepted calls must set the documented relation,
rejected calls (any exception) must leave both elements exactly as they were."""
from __future__ import annotations

import itertools
import math
import random
from fractions import Fraction

import z3

from symx.core import T, SR
from symx.harness import HarnessBase, Batch
from symx.ob import eq, holds, close, zabs

ID = 'C10'
KINDS = ['motor', 'flywheel', 'spur', 'helical', 'worm', 'wheel']
FUNCS = ['gear', 'worm', 'joint']
MAXHELIX = {14.5: 16, 20.0: 25, 25.0: 35, 30.0: 45}


def make(env, kind, tag, p):
    """p: dict n, helix, pa, starts, module ('sym' | None | number)"""
    import gearpy.mechanical_objects as mo
    import gearpy.units as gu
    J = gu.InertiaMoment(1, 'kgm^2')
    mod = p.get('module')
    mu = p.get('mu', 'mm')              # the unit the module is expressed in (its magnitude is given in mm)
    k_mu = {'mm': 1.0, 'cm': 0.1, 'dm': 0.01, 'm': 0.001}[mu]
    if mod == 'sym':
        if 'mu' in p:
            # mixed-unit cells: a bounded range, so that the rounding of the unit factors (doubles are modelled as reals)
            # stays far below the library's comparison tolerance
            m_mm = env.real('m_' + tag, lo=0.01, hi=1000)
        else:
            m_mm = env.real('m_' + tag, lo=0, lo_open=True)
        mod = gu.Length(m_mm if mu == 'mm' else m_mm * k_mu, mu)
    elif mod is not None:
        mod = gu.Length(mod if mu == 'mm' else mod * k_mu, mu)

    def ang(deg, key):
        # angles are given in degrees; 'hu' / 'pu' re-express helix / pressure angle in arcmin (exact: 60 per degree)
        u = p.get(key, 'deg')
        return gu.Angle(deg * 60 if u == 'arcmin' else deg, u)
    if kind == 'motor':
        return mo.DCMotor(name=tag, inertia_moment=J, no_load_speed=gu.AngularSpeed(100, 'rad/s'),
                          maximum_torque=gu.Torque(1, 'Nm'))
    if kind == 'flywheel':
        return mo.Flywheel(name=tag, inertia_moment=J)
    if kind == 'spur':
        return mo.SpurGear(name=tag, n_teeth=p.get('n', 20), inertia_moment=J, module=mod)
    if kind == 'helical':
        return mo.HelicalGear(name=tag, n_teeth=p.get('n', 20), inertia_moment=J,
                              helix_angle=ang(p.get('helix', 20.0), 'hu'), module=mod)
    if kind == 'worm':
        return mo.WormGear(name=tag, n_starts=p.get('starts', 2), inertia_moment=J,
                           helix_angle=ang(p.get('helix', 10.0), 'hu'),
                           pressure_angle=ang(p.get('pa', 20.0), 'pu'))
    if kind == 'wheel':
        return mo.WormWheel(name=tag, n_teeth=p.get('n', 30), inertia_moment=J,
                            helix_angle=ang(p.get('helix', 10.0), 'hu'),
                            pressure_angle=ang(p.get('pa', 20.0), 'pu'), module=mod)
    raise KeyError(kind)


def _si_exact(q):
    """SI magnitude of a Length without rounding: a proxy, or the exact rational of the stored double times the factor"""
    from oracles import si
    f = si.SI['Length'][q.unit]
    if isinstance(q.value, SR):
        return SR(q.value.t * z3.RealVal(f))
    return Fraction(q.value) * f


ATTRS = ['drives', 'driven_by', 'mating_role', 'master_gear_ratio', 'master_gear_efficiency', 'self_locking']


def state(obj, names):
    """public relation state; object references are reported by name"""
    out = {}
    for a in ATTRS:
        if not hasattr(type(obj), a):
            continue
        v = getattr(obj, a)
        if a in ('drives', 'driven_by'):
            v = None if v is None else names.get(id(v), '?')
        elif a == 'mating_role':
            v = None if v is None else v.__name__
        out[a] = v
    return out


class Declare(HarnessBase):
    """optional first (valid) declaration to put elements in a non-fresh state, then the call under test"""
    validate_max = 12
    max_paths = 300

    def __init__(self, func, ka, kb, pa=None, pb=None, pre=None, same=False):
        self.func, self.ka, self.kb = func, ka, kb
        self.pa, self.pb = dict(pa or {}), dict(pb or {})
        self.pre = pre        # None | 'a_drives_c' | 'c_drives_b' | 'reversed_worm'
        self.same = same
        self.name = 'declare:%s:%s->%s%s%s' % (func, ka, 'itself' if same else kb, ':' + pre if pre else '',
                                              ':' + _ptag(self.pa, self.pb))

    def describe(self):
        return dict(function=self.func, master=self.ka, slave=self.kb, master_params=self.pa, slave_params=self.pb,
                    previous_declaration=self.pre, same_object=self.same)

    def finding_key(self, ob, values):
        return 'declare:%s:%s->%s:%s' % (self.func, self.ka, 'itself' if self.same else self.kb, ob.family)

    def run(self, env):
        from gearpy.utils import add_gear_mating, add_worm_gear_mating, add_fixed_joint
        a = make(env, self.ka, 'a', self.pa)
        b = a if self.same else make(env, self.kb, 'b', self.pb)
        names = {id(a): 'a', id(b): 'b'}
        rec = dict()
        if self.pre:
            c = make(env, 'flywheel', 'c', {})
            names[id(c)] = 'c'
            if self.pre == 'a_drives_c':
                add_fixed_joint(master=a, slave=c)
            elif self.pre == 'reversed_worm':
                # the same worm pair was declared the other way round before (worm master: self-locking friction
                # 0.5; wheel master: friction 0.01): flags left by that declaration must not survive the new one
                add_worm_gear_mating(master=b, slave=a, friction_coefficient=0.5 if self.kb == 'worm' else 0.01)
            else:
                add_fixed_joint(master=c, slave=b)
        before = (state(a, names), state(b, names))
        arg = env.real('x')      # efficiency or friction coefficient: any real
        rec['x'] = arg
        try:
            if self.func == 'gear':
                add_gear_mating(master=a, slave=b, efficiency=arg)
            elif self.func == 'worm':
                add_worm_gear_mating(master=a, slave=b, friction_coefficient=arg)
            else:
                add_fixed_joint(master=a, slave=b)
            rec['raised'] = None
        except (TypeError, ValueError, ZeroDivisionError) as e:
            rec['raised'] = type(e).__name__
            rec['msg'] = str(e)[:90]
        rec['before'] = before
        rec['after'] = (state(a, names), state(b, names))
        rec['_modules'] = (_si_exact(a.module) if getattr(a, 'module', None) is not None else None,
                          _si_exact(b.module) if getattr(b, 'module', None) is not None else None)
        return rec

    # ---- oracle --------------------------------------------------------------
    def _compatible(self, rec, weak=False):
        """is the pair compatible (z3 Bool). weak: modules within the library's comparison tolerance (1e-12 in the
        left operand's unit, i.e. at most 1e-12 m for the units used here; recorded C05 finding) count as equal"""
        f, ka, kb = self.func, self.ka, self.kb
        if self.same:
            return z3.BoolVal(False)
        if f == 'joint':
            return z3.BoolVal(kb != 'motor')
        if f == 'gear':
            if ka not in ('spur', 'helical', 'wheel') or kb not in ('spur', 'helical', 'wheel'):
                return z3.BoolVal(False)
            ha = ka in ('helical', 'wheel')
            hb = kb in ('helical', 'wheel')
            if ha != hb:
                return z3.BoolVal(False)
            if ha and self.pa.get('helix', 20.0 if ka == 'helical' else 10.0) != \
                    self.pb.get('helix', 20.0 if kb == 'helical' else 10.0):
                return z3.BoolVal(False)
            ma, mb = rec['_modules']
            c = z3.BoolVal(True)
            if ma is not None and mb is not None:
                c = T(ma) == T(mb)
                if weak:
                    band = z3.RealVal(Fraction(2, 10 ** 12))
                    c = z3.And(T(ma) - T(mb) <= band, T(mb) - T(ma) <= band)
            x = T(rec['x'])
            return z3.And(c, x >= 0, x <= 1)
        if f == 'worm':
            if {ka, kb} != {'worm', 'wheel'}:
                return z3.BoolVal(False)
            if self.pa.get('pa', 20.0) != self.pb.get('pa', 20.0):
                return z3.BoolVal(False)
            x = T(rec['x'])
            return z3.And(x >= 0, x <= 1)

    def _worm_geometry(self):
        wp = self.pa if self.ka == 'worm' else self.pb
        al, be = wp.get('pa', 20.0), wp.get('helix', 10.0)
        return math.cos(math.radians(al)), math.tan(math.radians(be))

    def obligations(self, out):
        if not out.ok:
            return [holds('rel.no_other_exception', False, info=repr(out.exc))]
        rec = out.value
        obs = []
        x = T(rec['x'])
        before, after = rec['before'], rec['after']
        comp = self._compatible(rec)
        if rec['raised'] is not None:
            # a rejected call leaves both elements unmodified
            for side, b, a in (('master', before[0], after[0]), ('slave', before[1], after[1])):
                for k in b:
                    same = _same(b[k], a[k])
                    obs.append(holds('rel.rejected_call_leaves_%s_unmodified[%s]' % (side, k), same,
                                     info='%s of the %s changed from %r to %r although the call raised %s (%s)'
                                          % (k, side, b[k], a[k], rec['raised'], rec.get('msg'))))
            # rejection must have a documented reason: incompatible pair / argument out of range, or (worm
            # matings) a computed efficiency outside [0,1] / a degenerate helix angle
            if self.func == 'worm' and {self.ka, self.kb} == {'worm', 'wheel'} and not self.same:
                ca, tb = self._worm_geometry()
                if tb == 0:
                    reason = z3.BoolVal(True)
                else:
                    eta = self._eta(x, ca, tb)
                    reason = z3.Or(z3.Not(comp), eta < 0, eta > 1)
            else:
                reason = z3.Not(comp)
            obs.append(holds('rel.rejection_has_a_reason', reason, info='%s: %s' % (rec['raised'], rec.get('msg'))))
            return obs
        # accepted
        obs.append(holds('rel.incompatible_pair_rejected', self._compatible(rec, weak=True), info='accepted: %s' % (self.name,)))
        A, B = after
        obs.append(holds('rel.linked_mutually', A.get('drives') == 'b' and B.get('driven_by') == 'a',
                         info='drives=%r driven_by=%r' % (A.get('drives'), B.get('driven_by'))))
        if self.func in ('gear', 'worm'):
            obs.append(holds('rel.roles', A.get('mating_role') == 'MatingMaster' and B.get('mating_role') == 'MatingSlave',
                             info='%r %r' % (A.get('mating_role'), B.get('mating_role'))))
        ratio = B.get('master_gear_ratio')
        if self.func == 'joint':
            obs.append(holds('rel.ratio', ratio is not None and ratio == 1, info=repr(ratio)))
            return obs
        if self.func == 'gear':
            exp = Fraction(self.pb.get('n', 20 if self.kb != 'wheel' else 30), self.pa.get('n', 20 if self.ka != 'wheel' else 30))
            obs.append(eq('rel.ratio', ratio, exp))
            obs.append(eq('rel.efficiency', B.get('master_gear_efficiency'), x))
            obs.append(holds('rel.efficiency_in_range', z3.And(x >= 0, x <= 1)))
            return obs
        # worm
        ca, tb = self._worm_geometry()
        if self.ka == 'worm':
            exp = Fraction(self.pb.get('n', 30), self.pa.get('starts', 2))
        else:
            exp = Fraction(self.pb.get('starts', 2), self.pa.get('n', 30))
        obs.append(eq('rel.ratio', ratio, exp))
        eta = self._eta(x, ca, tb)
        e = T(B.get('master_gear_efficiency'))
        obs.append(eq('rel.efficiency', e, eta, tol=1e-9, prefer_robust=True, scale=(1,)))
        obs.append(holds('rel.efficiency_in_range', z3.And(e >= 0, e <= 1)))
        worm_state = A if self.ka == 'worm' else B
        sl = worm_state.get('self_locking')
        thr = Fraction(ca) * Fraction(tb)
        band = z3.RealVal(Fraction(1, 10**9))
        if sl is True:
            obs.append(holds('rel.self_locking_iff_criterion', x > z3.RealVal(thr) - band, info='flag set below the threshold'))
        elif sl is False:
            obs.append(holds('rel.self_locking_iff_criterion', x <= z3.RealVal(thr) + band, info='flag clear above the threshold'))
        else:
            obs.append(holds('rel.self_locking_iff_criterion', False, info='self_locking=%r' % (sl,)))
        return obs

    def _eta(self, x, ca, tb):
        ca, tb = z3.RealVal(Fraction(ca)), z3.RealVal(Fraction(tb))
        if self.ka == 'worm':
            return (ca - x * tb) / (ca + x / tb)
        return (ca - x / tb) / (ca + x * tb)


def _same(b, a):
    if isinstance(b, (SR, float, int)) and not isinstance(b, bool) and isinstance(a, (SR, float, int)) \
            and not isinstance(a, bool):
        return T(b) == T(a)
    return b == a or (b is a)


def _ptag(pa, pb):
    return ','.join('%s=%s' % kv for kv in sorted(pa.items())) + '|' + ','.join('%s=%s' % kv for kv in sorted(pb.items()))


# ----------------------------------------------------------------------------
def specs(tier, seed):
    rnd = random.Random(seed)
    cells = []
    for f in FUNCS:
        for ka in KINDS:
            for kb in KINDS:
                cells.append((f, ka, kb, (), (), None, False))
            cells.append((f, ka, ka, (), (), None, True))
    # geometry grids for the compatible families
    for ma, mb in itertools.product(('sym', None, 1.0), repeat=2):
        cells.append(('gear', 'spur', 'spur', (('module', ma), ('n', 12)), (('module', mb), ('n', 30)), None, False))
    for ha, hb in ((20.0, 20.0), (20.0, 15.0), (0.0, 0.0), (0.0, 5.0)):
        cells.append(('gear', 'helical', 'helical', (('helix', ha), ('n', 15), ('module', 'sym')),
                      (('helix', hb), ('n', 45), ('module', 'sym')), None, False))
    for hx in (0.0, 20.0):
        cells.append(('gear', 'spur', 'helical', (('n', 12),), (('helix', hx), ('n', 30)), None, False))
        cells.append(('gear', 'helical', 'spur', (('helix', hx), ('n', 12)), (('n', 30),), None, False))
    # the quantities the compatibility tests compare are expressed in DIFFERENT units on the two elements, the larger
    # magnitude on either side
    for mua, mub in (('cm', 'mm'), ('mm', 'cm'), ('m', 'dm')):
        cells.append(('gear', 'spur', 'spur', (('module', 'sym'), ('mu', mua), ('n', 12)), (('module', 'sym'), ('mu', mub), ('n', 30)), None, False))
        cells.append(('gear', 'spur', 'spur', (('module', 2.0), ('mu', mua), ('n', 12)), (('module', 1.0), ('mu', mub), ('n', 30)), None, False))
        cells.append(('gear', 'spur', 'spur', (('module', 1.0), ('mu', mua), ('n', 12)), (('module', 2.0), ('mu', mub), ('n', 30)), None, False))
        cells.append(('gear', 'spur', 'spur', (('module', 1.0), ('mu', mua), ('n', 12)), (('module', 1.0), ('mu', mub), ('n', 30)), None, False))
    for hua, hub in (('deg', 'arcmin'), ('arcmin', 'deg')):
        for ha, hb in ((20.0, 20.0), (20.0, 15.0), (15.0, 20.0)):
            cells.append(('gear', 'helical', 'helical', (('helix', ha), ('hu', hua), ('n', 15)), (('helix', hb), ('hu', hub), ('n', 45)), None, False))
        for pa_a, pa_b in ((20.0, 20.0), (25.0, 20.0), (20.0, 25.0), (14.5, 30.0), (30.0, 14.5)):
            cells.append(('worm', 'worm', 'wheel', (('pa', pa_a), ('pu', hua), ('helix', 5.0)), (('pa', pa_b), ('pu', hub), ('helix', 5.0)), None, False))
            cells.append(('worm', 'wheel', 'worm', (('pa', pa_a), ('pu', hua), ('helix', 5.0)), (('pa', pa_b), ('pu', hub), ('helix', 5.0)), None, False))
    pas = [14.5, 20.0, 25.0, 30.0]
    for pa in pas:
        helixes = [0.0, 5.0, float(MAXHELIX[pa])] if tier == 'quick' else [0.0, 1.0, 5.0, 10.0, 15.0, float(MAXHELIX[pa])]
        for hx in helixes:
            for order in (('worm', 'wheel'), ('wheel', 'worm')):
                pw = (('pa', pa), ('helix', hx), ('starts', rnd.choice([1, 2, 4])))
                ph = (('pa', pa), ('helix', hx), ('n', rnd.choice([10, 30, 57])))
                pp = (pw, ph) if order[0] == 'worm' else (ph, pw)
                cells.append(('worm', order[0], order[1], pp[0], pp[1], None, False))
        other = pas[(pas.index(pa) + 1) % 4]
        cells.append(('worm', 'worm', 'wheel', (('pa', pa), ('helix', 5.0)), (('pa', other), ('helix', 5.0)), None, False))
    # the call under test on elements that already have a relation (history of declarations)
    for pre in ('a_drives_c', 'c_drives_b'):
        for f, ka, kb, pa_, pb_ in (('gear', 'spur', 'spur', (), ()), ('gear', 'spur', 'helical', (), ()),
                                    ('worm', 'worm', 'wheel', (('helix', 10.0),), (('helix', 10.0),)),
                                    ('worm', 'wheel', 'worm', (('helix', 10.0),), (('helix', 10.0),)),
                                    ('worm', 'wheel', 'worm', (('helix', 0.0),), (('helix', 0.0),)),
                                    ('joint', 'flywheel', 'spur', (), ()), ('joint', 'spur', 'motor', (), ())):
            if pre == 'c_drives_b' and kb == 'motor':
                continue
            cells.append((f, ka, kb, pa_, pb_, pre, False))
    for ka, kb in (('wheel', 'worm'), ('worm', 'wheel')):
        for pa in (20.0, 14.5):
            cells.append(('worm', ka, kb, (('pa', pa), ('helix', 10.0)), (('pa', pa), ('helix', 10.0)), 'reversed_worm', False))
    out = []
    n = 24
    for i in range(0, len(cells), n):
        out.append(('cells', i // n, tuple(cells[i:i + n])))
    return out


def build(sp):
    _, i, cells = sp
    return Batch('cells:%d' % i, [Declare(f, ka, kb, pa, pb, pre, same) for (f, ka, kb, pa, pb, pre, same) in cells])


JOB_CAP = {'quick': 600, 'thorough': 1500}
REQUIRED_TRIGGERS = {'quick': ('rel.linked_mutually', 'rel.roles', 'rel.ratio', 'rel.efficiency', 'rel.efficiency_in_range',
                               'rel.self_locking_iff_criterion', 'rel.rejection_has_a_reason',
                               'rel.rejected_call_leaves_master_unmodified', 'rel.rejected_call_leaves_slave_unmodified',
                               'rel.incompatible_pair_rejected')}
BOUNDS = {
    'quick': 'all 6x6 ordered pairs of element kinds (+ an element with itself) x the three relation functions; spur '
             'pairs with modules symbolic/absent/fixed (9), helical pairs with equal/unequal/zero helix, spur with helical (helix 0 and 20 deg, both orders), worm matings in '
             'both orientations at all four pressure angles x helix {0, 5 deg, table maximum}, mismatching pressure angles; modules, helix angles and pressure angles of the two elements expressed in different units (mm/cm/dm/m, deg/arcmin) with the larger magnitude on either side; '
             ' the call under test also on elements that already carry a relation; efficiency / friction '
             'coefficient: every real number (in and out of range); modules: every positive real (0.01 mm .. 1 m in the mixed-unit cells)',
    'thorough': 'helix grid {0,1,5,10,15,max} per pressure angle',
}
OUTSIDE = ('worm and wheel with different helix angles (the documentation does not say whose angle enters the formula); '
           'sequences of more than two declarations; a helical gear mated with a worm wheel through add_gear_mating')
STUBS = ['gearpy.units.units.sin/cos/tan guarded (angles are concrete configuration)', 'gearpy.units.unit_base.fabs -> ite']
ASSUMPTIONS = ['doubles as reals', 'the self-locking threshold is decided up to a 1e-9 band (cos/tan are libm values)',
               'two modules given in different units that differ by less than 2e-12 m may be accepted as equal (the library compares with an absolute tolerance: recorded C05 finding); any larger difference must be rejected']
EXPLANATION = ('Symbolic execution of the real add_gear_mating / add_worm_gear_mating / add_fixed_joint and of the setters they '
               'call, with the efficiency, friction coefficient and modules as unconstrained solver variables; the public '
               'relation state of both elements is compared before and after every call.')
MANIFEST = dict(
    level_text='Symbolic execution of the real relation functions over the exhaustive set of element-kind pairs and a geometry '
               'grid, with the efficiency, friction coefficient and modules as solver variables over all reals: on every path z3 '
               'proves that an accepted call links both elements mutually with the documented roles, ratio (from the declared '
               'teeth/starts), efficiency (given value or the documented friction formula, within [0,1]) and self-locking flag '
               '(iff f > cos(alpha)tan(beta)), that incompatible pairs and out-of-range arguments are rejected, and that a '
               'rejected call (any exception) leaves the public relation state of both elements identical to before the call.',
    level_note='Kinds exhaustive, geometry on a grid, continuous arguments for all reals; doubles as reals; trusts z3 and the '
               'proxies (validated per path against concrete runs).',
    technique='symbolic execution of the real Python code (float-subclass proxies) + z3 per path; concrete replay',
    design_ref='DESIGN.md section 5 C10',
)
