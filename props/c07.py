"""C07  Results do not depend on the units inputs are expressed in.

Twin executions of the same physical model inside one exploration: once with every
input in SI units, once with every input re-expressed (same physical magnitude) in
another unit of its kind; the SI magnitudes of all outputs must coincide and the
success/failure class must be the same.  Table look-ups keyed by pressure angles are
enumerated exhaustively with concrete values."""
from __future__ import annotations

import random
from fractions import Fraction

import z3

from oracles import si
from props import sim
from symx.core import T
from symx.harness import HarnessBase, Batch
from symx.ob import eq, holds, zabs, close

ID = 'C07'


BOUND = (('th0', 1e3), ('om0', 1.0), ('load', 1e-3), ('duty', 1.0), ('thr', 1e3))


def _bound_of(name):
    for pre, b in BOUND:
        if name.startswith(pre):
            return b
    return 1.0


def magnitude_bound(term):
    """upper bound of |term| over the bounded input domain when `term` is affine in its variables (checked); None otherwise"""
    from z3 import z3util
    vs = z3util.get_vars(term)

    def at(point):
        v = z3.simplify(z3.substitute(term, *[(x, z3.RealVal(p)) for x, p in zip(vs, point)])) if vs else z3.simplify(term)
        if not z3.is_rational_value(v):
            return None
        return Fraction(v.numerator_as_long(), v.denominator_as_long())
    zero = [0] * len(vs)
    c0 = at(zero)
    if c0 is None:
        return None
    M = abs(c0)
    tot = c0
    for i, x in enumerate(vs):
        pt = list(zero)
        pt[i] = 1
        ci = at(pt)
        if ci is None:
            return None
        M += abs(ci - c0) * Fraction(_bound_of(str(x)))
        tot += ci - c0
    if vs and at([1] * len(vs)) != tot:
        return None
    return M


class UnitTwin(sim.TwinHarness):
    """A: SI units everywhere; B: the seeded unit assignment"""

    def __init__(self, topo, assignment, schedule=(('run', 3),), control=None, stop=None, tag='', schedule_b=None, opt=None):
        sched = tuple(schedule)
        super().__init__(topo, schedule_a=sched, schedule_b=tuple(schedule_b) if schedule_b else sched, control=control, tag=tag,
                         opt=opt)
        self.assignment = dict(assignment)
        self.stop = stop
        self.name = 'unittwin:%s:%s%s' % (topo, ','.join('%s=%s' % kv for kv in sorted(self.assignment.items())), tag)

    def describe(self):
        d = super().describe()
        d.update(unit_assignment=self.assignment)
        return d

    def finding_key(self, ob, values):
        return 'unittwin:%s:%s' % (self.topo_name, ob.family)

    def run(self, env):
        # bounded magnitudes: a difference of two huge operands carries their rounding noise (unit factors are doubles),
        # which no relative tolerance on the (cancelled) result can absorb
        # ... and a region in which the sign of the motor's net torque cannot flip (slow output, light load): the only
        # fork of a non-self-locking run then has one feasible side, so the twins share a single path instead of 3^K x 3^K
        env.real('th0', lo=-1e3, hi=1e3)
        env.real('om0', lo=-1.0, hi=1.0)
        nload = sum(op[1] for op in self.schedule_a if op[0].startswith('run')) + 2
        for k in range(nload):
            env.real('load_%d' % k, lo=-1e-3, hi=1e-3)
        # A in SI
        self.units, self.init_units, self.dt_unit = {}, {}, 'sec'
        self._thr_unit = None
        a = self._run_one(env, self.schedule_a)
        A = self.assignment
        self.units = {k: A[k] for k in A if k in ('J', 'w0', 'Tmax', 'i', 'i0u', 'imaxu') or k.startswith('opt_')}
        self.init_units = {k: A[k] for k in ('pos', 'spd') if k in A}
        self.dt_unit = A.get('dt', 'sec')
        self._thr_unit = A.get('thr')
        try:
            b = self._run_one(env, self.schedule_b)
        finally:
            self.units, self.init_units, self.dt_unit, self._thr_unit = {}, {}, 'sec', None
        return dict(A=a, B=b)

    def _stop(self, gu, env, M, spec, rec):
        kind, idx, opname, unit = spec
        # the threshold has ONE physical magnitude (SI symbol thr); twin B expresses it in another unit
        from gearpy.sensors import AbsoluteRotaryEncoder, Tachometer, Amperometer
        from gearpy.utils import StopCondition
        thr = env.real('thr', lo=-1e3, hi=1e3)
        K = {'encoder': 'AngularPosition', 'tachometer': 'AngularSpeed', 'amperometer': 'Current'}[kind]
        u0 = si.units_of(K)[0]
        u = self._thr_unit or u0
        val = thr if u == u0 else thr * float(si.SI[K][u0] / si.SI[K][u])
        q = getattr(gu, K)(val, u)
        if kind == 'encoder':
            sensor, var = AbsoluteRotaryEncoder(target=M.objs[idx]), 'angular position'
        elif kind == 'tachometer':
            sensor, var = Tachometer(target=M.objs[idx]), 'angular speed'
        else:
            sensor, var, idx = Amperometer(target=M.motor), 'electric current', 0
        rec['stop'] = dict(var=var, idx=idx, op=opname, thr=thr, thr_q=q)
        return StopCondition(sensor=sensor, threshold=q, operator=getattr(StopCondition, opname))

    def obligations(self, out):
        obs = super().obligations(out)
        if not out.ok:
            return obs
        from symx.ob import Ob
        for ob in obs:
            if ob.eqdata is not None:
                a, b, tol, atol, scale = ob.eqdata
                M = magnitude_bound(a)
                if M is None:
                    ob.robust = close(a, b, 1e-9, 1e-6)
                    ob.eqdata = (a, b, 1e-9, 1e-6, None)
                else:
                    # |a-b| <= 1e-9 * (bound of |a| over the input domain) + 1e-12 : linear, no case split
                    t = z3.RealVal(M * Fraction(1, 10 ** 9) + Fraction(1, 10 ** 12))
                    ob.robust = z3.And(a - b <= t, b - a <= t)
                    ob.eqdata = (a, b, 0.0, float(t.as_fraction()), None)
                ob.prefer_robust = True
        A, B = out.value['A'], out.value['B']
        if 'stop' not in A:
            return obs
        # a stop decision within rounding distance of its threshold is excluded by the property: every obligation of this
        # harness is conditioned on all sensed samples of run A being clear of the threshold
        st = A['stop']
        thr = T(st['thr'])
        samples = A['el'][st['idx']][st['var']]
        margin = z3.RealVal(Fraction(1, 10 ** 6))
        clear = z3.And([zabs(T(s) - thr) > margin * (1 + zabs(thr)) for s in samples]) if samples else z3.BoolVal(True)
        for ob in obs:
            ob.trigger = clear if ob.trigger is None else z3.And(ob.trigger, clear)
        return obs


class PressureAngle(HarnessBase):
    """worm gear / worm wheel constructed with the pressure angle (and helix angle) given in each angle unit"""
    validate_max = 1
    use_stubs = False

    def __init__(self, comp, pa, unit):
        self.comp, self.pa, self.unit = comp, pa, unit
        self.name = 'pressure_angle:%s:%s:%s' % (comp, pa, unit)

    def describe(self):
        return dict(component=self.comp, pressure_angle_deg=self.pa, given_in=self.unit)

    def finding_key(self, ob, values):
        return 'pressure_angle:%s:%s' % (self.comp, ob.family)

    def run(self, env):
        import gearpy.units as gu
        import gearpy.mechanical_objects as mo
        J = gu.InertiaMoment(1, 'kgm^2')
        env.real('dummy')
        res = {}
        for tag, unit in (('deg', 'deg'), ('other', self.unit)):
            pa = gu.Angle(self.pa, 'deg').to(unit)
            hx = gu.Angle(10, 'deg').to(unit)
            try:
                if self.comp == 'worm':
                    g = mo.WormGear(name='g', n_starts=1, inertia_moment=J, helix_angle=hx, pressure_angle=pa)
                else:
                    g = mo.WormWheel(name='g', n_teeth=30, inertia_moment=J, helix_angle=hx, pressure_angle=pa,
                                     module=gu.Length(1, 'mm'), face_width=gu.Length(5, 'mm'))
                    res[tag + '_lewis'] = float(g.lewis_factor)
                res[tag] = 'ok'
            except Exception as e:  # noqa
                res[tag] = type(e).__name__
        return res

    def obligations(self, out):
        if not out.ok:
            return [holds('pa.no_exception', False, info=repr(out.exc))]
        r = out.value
        obs = [holds('pa.same_outcome_in_every_unit', r['deg'] == r['other'],
                     info='%s in deg, %s in %s' % (r['deg'], r['other'], self.unit))]
        if 'deg_lewis' in r and 'other_lewis' in r:
            obs.append(holds('pa.same_lewis_factor', r['deg_lewis'] == r['other_lewis']))
        return obs


# ----------------------------------------------------------------------------
KEYS = dict(J='InertiaMoment', w0='AngularSpeed', Tmax='Torque', i='Current', pos='AngularPosition', spd='AngularSpeed', dt='Time')


def _assignment(rnd, cover=None):
    a = {}
    for k, kind in KEYS.items():
        us = si.units_of(kind)
        a[k] = rnd.choice(us[1:])
    if cover:
        a.update(cover)
    return tuple(sorted(a.items()))


def specs(tier, seed):
    rnd = random.Random(seed)
    S = []
    cells = []
    for comp in ('worm', 'wheel'):
        for pa in (14.5, 20.0, 25.0, 30.0):
            for u in ('rad', 'arcmin', 'arcsec', 'rot'):
                cells.append((comp, pa, u))
    S.append(('pa', tuple(cells)))
    topos = ['T1', 'T3', 'T6', 'T2', 'T5']
    if tier == 'quick':
        for i in range(4):
            S.append(('twin', topos[i % 3], _assignment(rnd), (('run', 3),), None, None))
    else:
        # covering design: every unit of every kind appears in at least one twin
        pend = {k: list(si.units_of(kind)[1:]) for k, kind in KEYS.items()}
        i = 0
        while any(pend.values()):
            cover = {k: v.pop() for k, v in pend.items() if v}
            S.append(('twin', topos[i % 5], _assignment(rnd, cover), (('run', 2),), None, None))
            i += 1
        for t in topos:
            S.append(('twin', t, _assignment(rnd), (('run', 2), ('run', 2)), None, None))
    if tier == 'thorough':
        S.append(('twin', 'T1', _assignment(rnd), (('run', 2),), ('arb', -1, 1), None))
    # the two motor currents in two different units; duty cycles inside (|D| <= i0/imax = 0.125) and outside the dead zone
    # (concrete: a symbolic duty cycle multiplies the symbolic state - probe: no answer within 15 min)
    for (u0, um) in ((('mA', 'A'),) if tier == 'quick' else (('mA', 'A'), ('A', 'uA'), ('uA', 'mA'))):
        for d in (0.0625, -0.09375, 0.5):
            a = dict(_assignment(rnd))
            a.pop('i', None)
            a.update(i0u=u0, imaxu=um)
            S.append(('twin', 'T3', tuple(sorted(a.items())), (('run', 2),), ('fixed', d), 'currents_%s_%s' % (u0, um)))
    # gear data (module, face width, worm reference diameter, elastic modulus) of the mated gears in units of their own:
    # the recorded forces and stresses must not change
    wopt = ((1, (('reference_diameter', 10.0),)), (2, (('module', 1.0), ('face_width', 8.0))))
    # (no elastic modulus: the contact stress is a square root whose twin comparison needs non-linear reasoning near zero
    # force; its unit independence is decided by C09's unit cells)
    sopt = ((1, (('module', 1.0), ('face_width', 8.0))), (2, (('module', 1.0), ('face_width', 8.0))))
    for (fu, du, mu, eu) in ((('m', 'cm', 'dm', 'MPa'),) if tier == 'quick' else (('m', 'cm', 'dm', 'MPa'), ('cm', 'm', 'mm', 'kPa'), ('dm', 'mm', 'cm', 'Pa'))):
        a = dict(opt_face_width=fu, opt_reference_diameter=du, opt_module=mu, opt_elastic_modulus=eu)
        S.append(('twin', 'T3', tuple(sorted(a.items())), (('run', 2),), None, 'gear_data_%s_%s' % (fu, du), None, wopt))
        S.append(('twin', 'T1', tuple(sorted(a.items())), (('run', 2),), None, 'gear_data_%s_%s' % (fu, mu), None, sopt))
    # a continuation whose dt and T are expressed in another time unit than the first run
    for u in (('ms', 'min') if tier == 'quick' else ('ms', 'min', 'hour')):
        a = dict(_assignment(rnd))
        a['dt'] = 'sec' if u != 'min' else 'hour'       # first run in one unit, continuation in another
        S.append(('twin', 'T1', tuple(sorted(a.items())), (('run', 2), ('run', 2)), None, 'cont_' + u, (('run', 2), ('run', 2, u))))
    # stop-condition thresholds in other units
    for kind, idx, op, K in (('encoder', 2, 'greater_than_or_equal_to', 'AngularPosition'), ('tachometer', 0, 'less_than', 'AngularSpeed'),
                             ('amperometer', 0, 'greater_than', 'Current')):
        us = si.units_of(K)[1:]
        for u in (us if tier == 'thorough' else [rnd.choice(us)]):
            a = dict(_assignment(rnd))
            a['thr'] = u
            topo = 'T3' if kind == 'amperometer' else 'T1'
            S.append(('twin', topo, tuple(sorted(a.items())), (('run_stop', 2, (kind, idx, op, 'SI')),), None, 'stop'))
    return S


def build(sp):
    if sp[0] == 'pa':
        return Batch('pressure_angles', [PressureAngle(*c) for c in sp[1]])
    _, topo, assignment, sched, control, tag = sp[:6]
    sb = sp[6] if len(sp) > 6 else None
    opt = sp[7] if len(sp) > 7 else None
    return UnitTwin(topo, assignment, schedule=sched, control=control, tag=':' + tag if tag else '', schedule_b=sb, opt=opt)


JOB_CAP = {'quick': 900, 'thorough': 3000}
REQUIRED_TRIGGERS = {'quick': ('same.number_of_instants', 'same.time', 'same.history', 'pa.same_outcome_in_every_unit')}
BOUNDS = {
    'quick': 'twin simulations (K=2; continuation 2+2 with the second run in ms / min; early stop with the threshold in another unit; the optional gear data (module, face width, worm reference diameter) of mated gears in units of their own (recorded forces and bending stresses); the two motor currents in two different units with duty cycles 1/16, -3/32 (inside the dead zone) and 1/2) on '
             'T1/T3/T6 with 4 seeded assignments of a non-SI unit to every input quantity (inertias, no-load speed, maximum torque, '
             'currents, initial position and speed, dt and T, sensor threshold); initial position |.| <= 1e3 rad, initial speed |.| <= 1 rad/s, loads |.| <= 1 mNm (a region where the motor torque keeps its sign), duty '
             'cycle and threshold symbolic; worm gear / worm wheel construction with each of the four pressure angles given in rad, arcmin, arcsec, rot '
             '(exhaustive, concrete)',
    'thorough': 'covering design: every unit of InertiaMoment, AngularSpeed, Torque, Current, AngularPosition and Time appears in '
                'at least one twin (17 assignments) on T1,T2,T3,T5,T6; continuation 2+2; every threshold unit',
}
OUTSIDE = ('unit independence of the motor law, gear stresses, relation functions and control rules is decided inside C08, C09, C10 and '
           'C15 (their harnesses run in seeded non-SI unit assignments against unit-free oracles); self-locking chains (a lock decision '
           'within rounding distance of zero speed may legitimately differ); stop decisions within 1e-6 of the threshold (excluded by '
           'the property)')
STUBS = sim.STUBS
ASSUMPTIONS = sim.ASSUMPTIONS + ['outputs are compared as SI magnitudes with relative tolerance 1e-9 plus 1e-6 absolute (unit factors are doubles; inputs bounded so that cancellation noise stays below it)']
EXPLANATION = ('Twin symbolic executions of Solver.run on the same physical model in two unit assignments with shared symbolic '
               'state; z3 proves equal time axes and histories per path; pressure-angle table look-ups are enumerated concretely.')
MANIFEST = dict(
    level_text='Twin bounded symbolic executions of the real library on the same physical model, once in SI units and once with every '
               'input quantity re-expressed in a seeded non-SI unit (physical magnitudes shared as solver variables): z3 proves per path '
               'that the run succeeds or fails alike and that time axis, every recorded history and the stop instant coincide as SI '
               'magnitudes up to 1e-9; the finite pressure-angle x unit domain of the worm tables is enumerated exhaustively.',
    level_note='Unit assignments sampled in quick, covering every unit in thorough; K=3; doubles as reals; decisions within rounding '
               'distance of a threshold excluded as the property states.',
    technique='symbolic execution of the real Python code (twin runs, float-subclass proxies) + z3 per path; concrete replay',
    design_ref='DESIGN.md section 5 C07',
)
