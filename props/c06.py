"""C06  Quantity arithmetic is dimensionally sound and subtraction undoes addition.

Every ordered pair of {13 kinds, int, float} x {+,-,*,/} is executed on the real
classes with both magnitudes symbolic reals (sign-constrained as the kind needs);
the oracle is a dimension table written from the property statement.
"""
from __future__ import annotations

import operator
import random

import z3

from oracles import si
from symx.core import T, SR
from symx.harness import HarnessBase, Batch
from symx.ob import eq, holds, zabs, close

ID = 'C06'
OPS = {'add': operator.add, 'sub': operator.sub, 'mul': operator.mul, 'div': operator.truediv}
NUMS = ['float', 'int']
OPERANDS = si.KINDS + NUMS
INT_VALUES = [0, 1, -1, 2, -3]

# physical dimensions (time, mass, length, current); the radian is dimensionless
PD = {
    'AngularPosition': (0, 0, 0, 0), 'Angle': (0, 0, 0, 0),
    'AngularSpeed': (-1, 0, 0, 0), 'AngularAcceleration': (-2, 0, 0, 0),
    'InertiaMoment': (0, 1, 2, 0), 'Torque': (-2, 1, 2, 0),
    'Time': (1, 0, 0, 0), 'TimeInterval': (1, 0, 0, 0),
    'Length': (0, 0, 1, 0), 'Surface': (0, 0, 2, 0),
    'Force': (-2, 1, 1, 0), 'Stress': (-2, 1, -1, 0), 'Current': (0, 0, 0, 1),
}
FAMILY = {'Angle': 'AngularPosition', 'TimeInterval': 'Time'}


def fam(k):
    return FAMILY.get(k, k)


def kinds_with_dim(d):
    return [k for k in si.KINDS if PD[k] == d]


def valid_for(kind, t):
    s = si.SIGN[kind]
    if s == 'pos':
        return t > 0
    if s == 'nonneg':
        return t >= 0
    return z3.BoolVal(True)


def mk(env, kind, name, unit, intval=None):
    import gearpy.units as gu
    if kind == 'float':
        return env.real(name)
    if kind == 'int':
        return intval
    s = si.SIGN[kind]
    if s == 'pos':
        v = env.real(name, lo=0, lo_open=True)
    elif s == 'nonneg':
        v = env.real(name, lo=0)
    else:
        v = env.real(name)
    return getattr(gu, kind)(v, unit)


def si_of(x):
    if isinstance(x, (int, float)):
        return x
    return si.si_val(x)


def kind_of(x):
    if isinstance(x, bool):
        return 'bool'
    if isinstance(x, int):
        return 'int'
    if isinstance(x, float):
        return 'float'
    return type(x).__name__


class BinOp(HarnessBase):
    """one (left kind, right kind, op, left unit, right unit[, int value]) cell"""
    validate_max = 8
    max_paths = 200

    def __init__(self, lk, rk, op, lu, ru, iv=None, pre=None):
        self.lk, self.rk, self.op, self.lu, self.ru, self.iv = lk, rk, op, lu, ru, iv
        self.pre = pre          # (unit the left operand is constructed in, unit the right operand is constructed in)
        self.name = 'binop:%s:%s:%s%s' % (op, lk, rk, ':after_inplace' if pre else '')

    def describe(self):
        return dict(left=self.lk, right=self.rk, op=self.op, units=[self.lu, self.ru], int_value=self.iv,
                    constructed_in=self.pre)

    def finding_key(self, ob, values):
        return 'binop:%s:%s:%s:%s' % (self.op, self.lk, self.rk, ob.family)

    def run(self, env):
        if self.pre:
            # history: the operands were constructed in another unit and converted IN PLACE to (lu, ru) before the operation
            x = mk(env, self.lk, 'a', self.pre[0] or self.lu, self.iv)
            y = mk(env, self.rk, 'b', self.pre[1] or self.ru, self.iv)
            # ... after having been converted (copies, discarded) to every unit of their kind, as earlier use would have done
            for q_ in (x, y):
                if hasattr(q_, 'unit'):
                    for u_ in si.units_of(type(q_).__name__):
                        q_.to(u_)
            if self.pre[0]:
                x.to(self.lu, inplace=True)
            if self.pre[1]:
                y.to(self.ru, inplace=True)
        else:
            x = mk(env, self.lk, 'a', self.lu, self.iv)
            y = mk(env, self.rk, 'b', self.ru, self.iv)
        rec = dict(a=self._si_sym(env, 'a', self.lk, self.pre[0] if self.pre and self.pre[0] else self.lu, x),
                   b=self._si_sym(env, 'b', self.rk, self.pre[1] if self.pre and self.pre[1] else self.ru, y),
                   a_raw=x.value if hasattr(x, 'value') else x, b_raw=y.value if hasattr(y, 'value') else y)
        try:
            r = OPS[self.op](x, y)
        except TypeError:
            rec['result'] = 'TypeError'
            return rec
        except ZeroDivisionError:
            rec['result'] = 'ZeroDivisionError'
            return rec
        except ValueError:
            rec['result'] = 'ValueError'
            return rec
        rec['result'] = 'value'
        rec['kind'] = kind_of(r)
        if isinstance(r, (int, float)):
            rec['si'] = r
            rec['unit'] = None
        elif r is None:
            rec['kind'] = 'None'
            rec['si'] = 0.0
            rec['unit'] = None
        else:
            rec['si'] = si.si_val(r)
            rec['value'] = r.value
            rec['unit'] = r.unit
        # operands must be left untouched
        rec['a_after'] = si_of(x)
        rec['b_after'] = si_of(y)
        return rec

    @staticmethod
    def _si_sym(env, name, kind, unit, obj):
        """SI magnitude of the operand as the user defined it (symbol x oracle factor of the unit it was constructed in)"""
        if kind in NUMS:
            return obj
        v = env.real(name) if env.symbolic else env.values.get(name, 0.0)
        f = si.SI[kind][unit]
        if isinstance(v, SR):
            return SR(v.t * z3.RealVal(f))
        from fractions import Fraction
        return float(Fraction(v) * f)

    # -- oracle ----------------------------------------------------------------
    def dictated(self):
        """(set of admissible result kinds or {'number'}, exact-result builder) or None if the
        operation has no dimensionally meaningful result (TypeError is then the only outcome)"""
        lk, rk, op = self.lk, self.rk, self.op
        ln, rn = lk in NUMS, rk in NUMS
        if op in ('add', 'sub'):
            if ln or rn:
                return None
            if fam(lk) != fam(rk):
                return None
            f = fam(lk)
            ks = {k for k in si.KINDS if fam(k) == f}
            return ks
        if op == 'mul':
            if ln and rn:
                return None
            if ln:
                return {k for k in si.KINDS if fam(k) == fam(rk)}
            if rn:
                return {k for k in si.KINDS if fam(k) == fam(lk)}
            d = tuple(p + q for p, q in zip(PD[lk], PD[rk]))
            ks = set(kinds_with_dim(d))
            return ks or None
        if op == 'div':
            if ln:
                return None      # number / quantity: no kind in the library has inverse dimension
            if rn:
                return {k for k in si.KINDS if fam(k) == fam(lk)}
            if fam(lk) == fam(rk):
                return {'number'}
            d = tuple(p - q for p, q in zip(PD[lk], PD[rk]))
            ks = set(kinds_with_dim(d))
            return ks or None

    def obligations(self, out):
        obs = []
        if not out.ok:
            return [holds('no_other_exception', False, info=repr(out.exc))]
        rec = out.value
        a, b = T(rec['a']), T(rec['b'])
        op = self.op
        if op == 'add':
            exact = a + b
        elif op == 'sub':
            exact = a - b
        elif op == 'mul':
            exact = a * b
        else:
            exact = None  # a/b, only when b != 0
        adm = self.dictated()
        res = rec['result']
        if adm is None:
            if res == 'ZeroDivisionError' and op == 'div':
                # the zero-divisor check runs before the type check: admissible iff the divisor is 0
                obs.append(holds('zero_division_iff_zero_divisor', b == 0))
                return obs
            obs.append(holds('meaningless_op_raises_TypeError', res == 'TypeError', info=res))
            return obs
        if res == 'TypeError':
            return obs          # always allowed
        if res == 'ZeroDivisionError':
            obs.append(holds('zero_division_iff_zero_divisor', z3.And(op == 'div', b == 0) if op == 'div' else False))
            return obs
        if op == 'div':
            obs.append(holds('zero_divisor_raises', b != 0))
        if res == 'ValueError':
            # allowed only if the exact result violates the sign constraint of a kind involved
            conds = []
            for k in (set(adm) - {'number'}) | ({self.lk, self.rk} - set(NUMS)):
                if si.SIGN.get(k):
                    ex = exact if exact is not None else a / b
                    # "invalid up to rounding": the library's unit factors are doubles
                    slack = z3.RealVal('1/1000000000') * (zabs(a) + zabs(b))
                    conds.append(z3.Not(valid_for(k, ex - slack)))
            # a negative plain factor/divisor applied to a sign-constrained kind is rejected as such
            # (only differs from the previous condition when the quantity is exactly 0)
            if conds and self.rk in NUMS:
                conds.append(b < 0)
            if conds and self.lk in NUMS:
                conds.append(a < 0)
            obs.append(holds('ValueError_only_if_exact_result_invalid', z3.Or(conds) if conds else False))
            return obs
        # a value came back
        kind = rec['kind']
        if adm == {'number'}:
            obs.append(holds('same_kind_ratio_is_plain_number', kind in ('float', 'int'), info=kind))
        else:
            obs.append(holds('result_kind_dictated', kind in adm, info='%s not in %s' % (kind, sorted(adm))))
        if kind in ('float', 'int') or kind in si.KINDS:
            r = T(rec['si'])
            if exact is None:
                obs.append(eq('si_magnitude', r * b, a, tol=1e-9, trigger=None))
            else:
                obs.append(eq('si_magnitude', r, exact, tol=1e-9, scale=(a, b) if op in ('add', 'sub') else None))
            if kind in si.KINDS:
                obs.append(holds('result_valid_for_its_kind', valid_for(kind, r)))
            if op == 'sub':
                # keeps the known sign-error finding narrow: anything that is neither the difference
                # nor the recorded wrong sum is a different violation
                obs.append(holds('sub_is_difference_or_recorded_sum',
                                 z3.Or(close(r, a - b, 1e-9, 0.0, (a, b)), close(r, a + b, 1e-9, 0.0, (a, b)))))
        if 'a_after' in rec:
            obs.append(eq('left_operand_untouched', rec['a_after'], rec['a']))
            obs.append(eq('right_operand_untouched', rec['b_after'], rec['b']))
        return obs


class Inverse(HarnessBase):
    """(a + b) - b == a   and   a - b == -(b - a)   whenever both sides are defined"""
    validate_max = 8
    max_paths = 400

    def __init__(self, lk, rk, lu, ru):
        self.lk, self.rk, self.lu, self.ru = lk, rk, lu, ru
        self.name = 'inverse:%s:%s' % (lk, rk)

    def describe(self):
        return dict(left=self.lk, right=self.rk, units=[self.lu, self.ru], laws=['(a+b)-b==a', 'a-b==-(b-a)'])

    def finding_key(self, ob, values):
        return 'inverse:%s:%s:%s' % (self.lk, self.rk, ob.family)

    def run(self, env):
        x = mk(env, self.lk, 'a', self.lu)
        y = mk(env, self.rk, 'b', self.ru)
        rec = dict(a=si_of(x), b=si_of(y))

        def attempt(f):
            try:
                r = f()
            except (TypeError, ValueError, ZeroDivisionError) as e:
                return type(e).__name__
            if r is None:
                return 'None'
            return si.si_val(r)
        rec['apb_mb'] = attempt(lambda: (x + y) - y)
        rec['amb'] = attempt(lambda: x - y)
        rec['neg_bma'] = attempt(lambda: -(y - x))
        return rec

    def obligations(self, out):
        if not out.ok:
            return [holds('no_other_exception', False, info=repr(out.exc))]
        rec = out.value
        obs = []
        if not isinstance(rec['apb_mb'], str):
            obs.append(eq('add_then_sub_restores', rec['apb_mb'], rec['a'], scale=(rec['b'],)))
        if not isinstance(rec['amb'], str) and not isinstance(rec['neg_bma'], str):
            obs.append(eq('sub_antisymmetric', rec['amb'], rec['neg_bma'], scale=(rec['a'], rec['b'])))
        if rec['amb'] == 'None' or rec['neg_bma'] == 'None' or rec['apb_mb'] == 'None':
            obs.append(holds('operation_returns_a_value_or_raises', False))
        return obs


# ----------------------------------------------------------------------------
def _units(kind):
    return [None] if kind in NUMS else si.units_of(kind)


def specs(tier, seed):
    rnd = random.Random(seed)
    out = []
    for lk in OPERANDS:
        cells = []
        for rk in OPERANDS:
            if lk in NUMS and rk in NUMS:
                continue        # plain Python arithmetic, not gearpy
            for op in OPS:
                lus, rus = _units(lk), _units(rk)
                if tier == 'thorough':
                    pairs = [(lu, ru) for lu in lus for ru in rus]
                    if len(pairs) > 40:
                        pairs = rnd.sample(pairs, 40) + [(lus[0], rus[-1]), (lus[-1], rus[0])]
                else:
                    pairs = [(lus[-1], rus[0])]
                    if len(lus) > 1 or len(rus) > 1:
                        pairs.append((rnd.choice(lus), rnd.choice(rus)))
                ivs = INT_VALUES if 'int' in (lk, rk) else [None]
                for lu, ru in pairs:
                    for iv in ivs:
                        cells.append(('binop', lk, rk, op, lu, ru, iv))
                # the same operation on operands that were converted in place beforehand (left, right, both)
                if lk not in NUMS and len(lus) > 1:
                    lu0 = lus[(lus.index(pairs[-1][0]) + 1) % len(lus)]
                    ru0 = rus[(rus.index(pairs[-1][1]) + 1) % len(rus)] if rk not in NUMS and len(rus) > 1 else None
                    cells.append(('binop', lk, rk, op, pairs[-1][0], pairs[-1][1], ivs[0], (lu0, None)))
                    if ru0:
                        cells.append(('binop', lk, rk, op, pairs[-1][0], pairs[-1][1], ivs[0], (lu0, ru0)))
                elif rk not in NUMS and len(rus) > 1:
                    ru0 = rus[(rus.index(pairs[-1][1]) + 1) % len(rus)]
                    cells.append(('binop', lk, rk, op, pairs[-1][0], pairs[-1][1], ivs[0], (None, ru0)))
            if lk not in NUMS and rk not in NUMS and fam(lk) == fam(rk):
                lus, rus = _units(lk), _units(rk)
                pairs = [(lu, ru) for lu in lus for ru in rus] if tier == 'thorough' else \
                    [(lus[0], rus[-1]), (rnd.choice(lus), rnd.choice(rus))]
                for lu, ru in pairs:
                    cells.append(('inverse', lk, rk, lu, ru))
        # split big rows into chunks so that 16 workers stay busy
        n = 120
        for i in range(0, len(cells), n):
            out.append(('row', lk, i // n, tuple(cells[i:i + n])))
    return out


def build(spec):
    _, lk, i, cells = spec
    hs = []
    for c in cells:
        if c[0] == 'binop':
            hs.append(BinOp(*c[1:]))
        else:
            hs.append(Inverse(*c[1:]))
    return Batch('row:%s:%d' % (lk, i), hs)


def build_one(cell):
    return BinOp(*cell[1:]) if cell[0] == 'binop' else Inverse(*cell[1:])


JOB_CAP = {'quick': 600, 'thorough': 1500}
REQUIRED_TRIGGERS = {'quick': ('si_magnitude', 'result_kind_dictated', 'same_kind_ratio_is_plain_number',
                               'meaningless_op_raises_TypeError', 'add_then_sub_restores', 'sub_antisymmetric')}
BOUNDS = {
    'quick': 'all 15x15 ordered operand-kind pairs x 4 operators (exhaustive); 2 unit pairs per cell (one fixed, '
             'one seeded) on fresh operands plus 1-2 cells per combination on operands converted IN PLACE from another unit first; int operand in {0,1,-1,2,-3}; magnitudes: all reals within the sign constraint',
    'thorough': 'as quick with every unit pair (<= 40 seeded + 2 fixed pairs for the largest kinds)',
}
OUTSIDE = 'floating-point rounding of the operations (doubles are treated as reals); non-finite operands'
STUBS = ['gearpy.units.unit_base.fabs -> ite (only reached by comparisons inside Angle/TimeInterval multiplications)']
ASSUMPTIONS = [
    'operands are valid quantities (magnitude within the sign constraint of their kind)',
    'doubles are modelled as exact reals; unit factors are the exact rational values of the library\'s doubles '
    'and are compared with an independent SI table at relative tolerance 1e-9',
    'the radian is treated as dimensionless (torque/inertia -> acceleration, speed*time -> position)',
]
EXPLANATION = ('Symbolic execution (float-subclass proxies carrying z3 Real terms) of the real gearpy operator '
               'methods; per path the oracle obligations are discharged by z3 (unsat of the negation).')

MANIFEST = dict(
    level_text='Bounded symbolic execution of the real operator methods of all 13 quantity classes: every ordered '
               'operand-kind pair x operator is run on float-subclass proxies carrying z3 Real terms, every '
               'comparison in the library forks under solver control, and on each path z3 proves (unsat of the '
               'negation) that the outcome is a TypeError or the dimensionally dictated kind with the exact SI '
               'product/quotient/sum/difference, for ALL magnitudes; counterexamples are replayed on the unpatched '
               'library. Kind pairs and operators are exhaustive; unit pairs exhaustive in the thorough tier.',
    level_note='Doubles are modelled as reals (rounding outside the claim); unit factors are compared with an '
               'independent SI table at 1e-9; trusts z3 and the proxy arithmetic (validated per path against a '
               'concrete run of the same harness on the real library).',
    technique='symbolic execution of the real Python code (float-subclass proxies) + z3 (QF_NRA/LRA) per path',
    design_ref='DESIGN.md section 5 C06',
)
