"""C04  Trajectories converge to the closed-form solution as dt shrinks.

A limit statement; the solver decides bounded instances of it: Solver.run for N
steps on a concrete chain with the initial speed and the constant load as solver
variables (the recorded speed and position are exact affine forms in them), against
the closed-form exponential solution enclosed by rationals, for dt, dt/2, dt/4."""
from __future__ import annotations

import math
import random
from fractions import Fraction

import z3

from oracles import chain as CH
from props import sim
from symx.core import T
from symx.harness import HarnessBase
from symx.ob import holds, zabs, Ob

ID = 'C04'


def exp_neg(x, digits=30, out_digits=20):
    """rational enclosure midpoint of exp(-x), x a non-negative Fraction, error < 10^-digits"""
    # range reduction: exp(-x) = exp(-x/2^s)^(2^s)
    s = 0
    y = Fraction(x)
    while y > Fraction(1, 2):
        y /= 2
        s += 1
    term, tot, n = Fraction(1), Fraction(1), 0
    eps = Fraction(1, 10 ** (digits + 2 + s))
    while abs(term) > eps:
        n += 1
        term = term * (-y) / n
        tot += term
    for _ in range(s):
        tot = tot * tot
    from decimal import Decimal, getcontext
    getcontext().prec = out_digits
    return Fraction(Decimal(tot.numerator) / Decimal(tot.denominator))


def rate_and_limit(topo, duty):
    """kappa and omega_inf = a - b*T_load of the output element, from the oracle's view of the chain (floats)"""
    mt = topo['motor']
    J = mt['J'][0]
    R, G = 1.0, 1.0
    import math as m
    kinds = ['motor'] + [k for k, _ in topo['elements']]
    pars = [None] + [p for _, p in topo['elements']]
    rho = [None]
    eta = [None]
    for i, link in enumerate(topo['links'], start=1):
        if link[0] == 'joint':
            r, e = 1.0, 1.0
        elif link[0] == 'mate':
            r, e = pars[i]['n'] / pars[i - 1]['n'], link[1]
        else:
            f = link[1]
            if kinds[i - 1] == 'worm':
                wp = pars[i - 1]
                r = pars[i]['n'] / wp['starts']
                ca, tb = m.cos(m.radians(wp['pa'])), m.tan(m.radians(wp['helix']))
                e = (ca - f * tb) / (ca + f / tb)
            else:
                wp = pars[i]
                r = wp['starts'] / pars[i - 1]['n']
                ca, tb = m.cos(m.radians(wp['pa'])), m.tan(m.radians(wp['helix']))
                e = (ca - f / tb) / (ca + f * tb)
        rho.append(r)
        eta.append(e)
        J = J * r + pars[i]['J']
        R *= r
        G *= e * r
    Tmax, w0 = mt['Tmax'][0], mt['w0'][0]
    if mt.get('currents'):
        i0, imax = mt['i0'][0], mt['imax'][0]
        if duty > 0:
            TD = Tmax * (duty * imax - i0) / (imax - i0)
        else:
            TD = Tmax * (duty * imax + i0) / (imax - i0)
        wD = duty * w0
    else:
        TD, wD = Tmax, w0
    kappa = G * TD * R / (wD * J)
    a = wD / R                    # omega_inf = a - b*T_load
    b = wD / (G * TD * R)
    return kappa, a, b, J


def affine(term, names, digits=18):
    """`term` is an affine form in the Real variables `names` with astronomically large rational coefficients (N steps of
    exact arithmetic): return the same form with every coefficient rounded to `digits` significant digits (relative error
    1e-18, far below every tolerance used here), or the term itself if it is not affine (checked at a fourth point)."""
    vs = [z3.Real(n) for n in names]

    def at(point):
        v = z3.simplify(z3.substitute(term, *[(x, z3.RealVal(p)) for x, p in zip(vs, point)]))
        if not z3.is_rational_value(v):
            return None
        return Fraction(v.numerator_as_long(), v.denominator_as_long())
    zero = [0] * len(vs)
    c0 = at(zero)
    if c0 is None:
        return term
    cs = []
    for i in range(len(vs)):
        pt = list(zero)
        pt[i] = 1
        ci = at(pt)
        if ci is None:
            return term
        cs.append(ci - c0)
    chk = at([1] * len(vs))
    if chk is None or chk != c0 + sum(cs):
        return term

    def rnd(q):
        if q == 0:
            return q
        from decimal import Decimal, getcontext
        getcontext().prec = digits
        d = Decimal(q.numerator) / Decimal(q.denominator)
        return Fraction(d)
    out = z3.RealVal(rnd(c0))
    for x, c in zip(vs, cs):
        out = out + z3.RealVal(rnd(c)) * x
    return out


class ConvSim(sim.SimHarness):
    const_load = True
    validate_max = 3
    max_paths = 50
    max_seconds = 800

    def __init__(self, topo, duty, N, dt, kappa, a, b, level, tag='', legs=False):
        ctl = ('fixed', duty) if duty != 1 else None
        # legs: the horizon is covered by two consecutive run() calls, the second one with dt in ms and T in sec
        sched = (('run', N),) if not legs else (('run', N // 2), ('run', N - N // 2, 'ms', 1, 'sec'))
        super().__init__(topo, schedule=sched, control=ctl, dt=dt, props=('C04',), tag=tag)
        self.N, self.kappa, self.a, self.b, self.level = N, kappa, a, b, level
        self.name = 'conv:%s:duty=%s:N=%d:dt=%g%s' % (topo, duty, N, dt, ':two_legs' if legs else '')

    def describe(self):
        d = super().describe()
        d.update(N=self.N, kappa=self.kappa, h=self.kappa * self.dt, halving_level=self.level)
        return d

    def relax_path(self, path):
        """the path atoms are affine inequalities with astronomically large rational coefficients: each is replaced by a
        WEAKER inequality with coefficients rounded to 40 digits and a slack of 1e-30*(|om0|+|load|+|th0|+1), so the
        obligations are proved on a superset of the path region (sound) with small numbers (fast)"""
        from symx.core import _sides
        names = ('om0', 'load', 'th0')
        vs = [z3.Real(n) for n in names]
        # |om0|, |load|, |th0| <= 1e9 (stated bound of this check) => a constant slack keeps every atom purely linear
        slack = z3.RealVal(Fraction(4 * 10 ** 9, 10 ** 17))
        out = [z3.And(v <= 10 ** 9, v >= -10 ** 9) for v in vs]
        for c in path:
            c = z3.simplify(c)
            sd = _sides(c)
            if sd is None:
                k = c.decl().kind()
                if k == z3.Z3_OP_EQ and c.arg(0).sort() == z3.RealSort():
                    d = affine(c.arg(0) - c.arg(1), names)
                    out.append(z3.And(d <= slack, -d <= slack))
                elif k == z3.Z3_OP_NOT and c.arg(0).decl().kind() == z3.Z3_OP_EQ:
                    continue            # a disequality carries no information after weakening
                else:
                    out.append(c)
                continue
            d = affine(sd[0] - sd[1], names)        # small - large <= 0 (or < 0)
            out.append(d <= slack)
        return out

    def finding_key(self, ob, values):
        return 'conv:%s:%s' % (self.topo_name, ob.family)

    def ob_C04(self, rec):
        obs = []
        E = rec['el']
        L = len(E) - 1
        n = self._n_common(rec)
        obs.append(holds('conv.run_complete', n == self.N + 1 and rec['raised'] is None, info='n=%d raised=%s' % (n, rec['raised'])))
        if n < 2:
            return obs
        kap = Fraction(self.kappa)
        dt = Fraction(rec['dt'])
        h = kap * dt
        load = T(rec['load_calls'][0]['val'])
        w_inf = z3.RealVal(Fraction(self.a)) - z3.RealVal(Fraction(self.b)) * load
        w0 = T(E[L]['angular speed'][0])
        th0 = T(E[L]['angular position'][0])
        D = w0 - w_inf
        aD = zabs(D)
        eps = Fraction(1, 10 ** 9)
        # the oracle's kappa, a, b are doubles (relative error 1e-16): when omega_0 ~ omega_inf the difference D
        # cancels, so every bound carries a slack relative to the magnitudes that cancel
        mag = z3.RealVal(eps) * (zabs(w0) + z3.RealVal(Fraction(abs(self.a))) + z3.RealVal(Fraction(abs(self.b))) * zabs(load))
        tmag = mag * z3.RealVal(dt * self.N + 1 / kap)
        cw = Fraction(1, 2) * h + eps               # textbook constant 0.23*h for h <= 0.2
        cth = Fraction(3, 2) * dt + eps / kap       # textbook constant 1.25*dt
        ks = sorted(set([1, n // 2, n - 1]))
        for k in ks:
            if k < 1 or k >= n:
                continue
            # the closed form is evaluated at the instant the library REPORTS for sample k: it must be k*dt
            tk = T(rec['time'][k])
            tslack = z3.RealVal(dt * k * eps)
            obs.append(holds('conv.reported_instant[k=%d]' % k, z3.And(tk - z3.RealVal(dt * k) <= tslack,
                                                                       z3.RealVal(dt * k) - tk <= tslack)))
            Ek = exp_neg(kap * dt * k)
            wk = affine(T(E[L]['angular speed'][k]), ('om0', 'load', 'th0'))
            exact_w = w_inf + D * z3.RealVal(Ek)
            d = wk - exact_w
            obs.append(holds('conv.speed_within_bound[k=%d]' % k, z3.And(d <= z3.RealVal(cw) * aD + mag, -d <= z3.RealVal(cw) * aD + mag)))
            thk = affine(T(E[L]['angular position'][k]), ('om0', 'load', 'th0'))
            exact_th = th0 + w_inf * z3.RealVal(dt * k) + D * z3.RealVal((1 - Ek) / kap)
            dth = thk - exact_th
            obs.append(holds('conv.position_within_bound[k=%d]' % k,
                             z3.And(dth <= z3.RealVal(cth) * aD + tmag, -dth <= z3.RealVal(cth) * aD + tmag)))
        return obs


class ConvTwin(ConvSim):
    """the same model simulated with dt (N steps) and dt/2 (2N steps) inside one exploration: at the common final time
    the error roughly halves"""

    def __init__(self, topo, duty, N, dt, kappa, a, b, level, tag=''):
        super().__init__(topo, duty, N, dt, kappa, a, b, level, tag)
        self.name = 'convtwin:%s:duty=%s:N=%d:dt=%g' % (topo, duty, N, dt)

    def run(self, env):
        r1 = self._run_one(env, (('run', self.N),))
        self.dt = self.dt / 2
        try:
            r2 = self._run_one(env, (('run', 2 * self.N),))
        finally:
            self.dt = self.dt * 2
        return dict(A=r1, B=r2)

    def obligations(self, out):
        if not out.ok:
            return [holds('conv.run_complete', False, info=repr(out.exc))]
        A, B = out.value['A'], out.value['B']
        obs = []
        ok = A['raised'] is None and B['raised'] is None and A['n'] == self.N + 1 and B['n'] == 2 * self.N + 1
        obs.append(holds('conv.run_complete', ok, info='%s %s %s %s' % (A['raised'], B['raised'], A['n'], B['n'])))
        if not ok:
            return obs
        L = len(A['el']) - 1
        kap = Fraction(self.kappa)
        dt = Fraction(A['dt'])
        load = T(A['load_calls'][0]['val'])
        w_inf = z3.RealVal(Fraction(self.a)) - z3.RealVal(Fraction(self.b)) * load
        w0 = T(A['el'][L]['angular speed'][0])
        D = w0 - w_inf
        aD = zabs(D)
        eps = Fraction(1, 10 ** 9)
        mag = z3.RealVal(eps) * (zabs(w0) + z3.RealVal(Fraction(abs(self.a))) + z3.RealVal(Fraction(abs(self.b))) * zabs(load))
        E = exp_neg(kap * dt * self.N)
        exact = w_inf + D * z3.RealVal(E)
        e1 = zabs(affine(T(A['el'][L]['angular speed'][self.N]), ('om0', 'load', 'th0')) - exact)
        e2 = zabs(affine(T(B['el'][L]['angular speed'][2 * self.N]), ('om0', 'load', 'th0')) - exact)
        obs.append(holds('conv.error_roughly_halves', z3.And(e2 <= z3.RealVal(Fraction(65, 100)) * e1 + mag,
                                                             e2 >= z3.RealVal(Fraction(35, 100)) * e1 - mag)))
        # and the error is genuinely there (otherwise the ratio test would be vacuous): at least a tenth of the
        # explicit-Euler error factor |(1-h)^N - exp(-hN)|
        h = kap * dt
        ref = abs((1 - h) ** self.N - E)
        obs.append(holds('conv.error_is_of_order_dt', e1 <= z3.RealVal(ref * 3) * aD + mag))
        return obs


def specs(tier, seed):
    rnd = random.Random(seed)
    S = []
    topos = ['T1', 'T2', 'T3', 'T5', 'T6'] if tier == 'quick' else ['T1', 'T2', 'T3', 'T5', 'T6'] + ['S%d_%d' % (3 + i % 6, i) for i in range(10)]
    for t in topos:
        topo = CH.get_topology(t, seed)
        duties = [1]
        if topo['motor'].get('currents'):
            duties = [1, 0.625, -0.75]
        for duty in duties:
            kappa, a, b, J = rate_and_limit(topo, duty)
            if kappa <= 0:
                continue
            # dt dyadic with h = kappa*dt in (0.1, 0.2]
            dt = 2.0 ** math.floor(math.log2(0.2 / kappa))
            horizon = (3 if tier == 'quick' else rnd.choice([3, 4, 6])) / kappa
            N = max(4, int(round(horizon / dt)))
            N = min(N, 16)
            # a third halving (N = 64) only where it is affordable: exact rational histories grow by ~60 digits per step
            levels = 3 if (tier == 'thorough' and t in ('T1', 'T3') and duty == 1) else 2
            for level in range(levels):
                S.append(('conv', t, duty, N * 2 ** level, dt / 2 ** level, kappa, a, b, level, seed))
            for level in range(levels - 1):
                S.append(('twin', t, duty, N * 2 ** level, dt / 2 ** level, kappa, a, b, level, seed))
            if t in ('T1', 'T3') and duty == 1:
                S.append(('legs', t, duty, N, dt, kappa, a, b, 0, seed))
    return S


def build(sp):
    kind, t, duty, N, dt, kappa, a, b, level, seed = sp
    if kind == 'legs':
        return ConvSim(t, duty, N, dt, kappa, a, b, level, legs=True)
    return (ConvTwin if kind == 'twin' else ConvSim)(t, duty, N, dt, kappa, a, b, level)


JOB_CAP = {'quick': 1200, 'thorough': 3000}
REQUIRED_TRIGGERS = {'quick': ('conv.speed_within_bound', 'conv.position_within_bound', 'conv.error_roughly_halves')}
BOUNDS = {
    'quick': 'chains T1,T2,T3,T5,T6 (concrete configuration), duty 1 (and 0.625, -0.75 with current data), dt = largest power '
             'of two with kappa*dt <= 0.2 and its halving dt/2, horizon up to 3/kappa (N <= 16 and 32 steps), the pair (dt, dt/2) also simulated inside one exploration for the ratio test; on T1 and T3 the horizon also covered by two consecutive run() calls (the second with dt in ms and T in sec); every checked sample must be reported at k*dt; the initial '
             'speed, initial position and the constant load are solver variables over [-1e9, 1e9] (loads below and above '
             'stall, either sign)',
    'thorough': '10 seeded chains of 3..8 elements, horizons 3..6/kappa, halvings dt, dt/2 (N <= 16, 32) and a third halving dt/4 (N = 64) on T1 and T3',
}
OUTSIDE = ('self-locking chains (while such a chain is held the motion is not the linear equation the closed form solves; the hold / release '
           'logic is decided by C13, which caught the seeded change C04-e: release test broken for negative duty); '
           'the limit dt -> 0 itself (represented by 3-4 halvings); configurations and dt are sampled, not symbolic (a symbolic '
           'kappa*dt makes the trajectory a degree-N polynomial and the oracle transcendental); a scheme that is different but still '
           'first-order accurate with the same leading error is accepted, as the property demands')
STUBS = sim.STUBS
ASSUMPTIONS = ['doubles as reals', 'exp(-x) replaced by a rational within 1e-30 (Taylor series with range reduction, exact Fractions)',
               'the recorded affine forms are compared after rounding their exact rational coefficients to 18 significant digits; path atoms are weakened by 4e-8 (sound superset of the path region)',
               'error bounds: |omega_k - omega(t_k)| <= 0.5*kappa*dt*|omega_0 - omega_inf| and |theta_k - theta(t_k)| <= '
               '1.5*dt*|omega_0 - omega_inf| (explicit Euler on a linear ODE with kappa*dt <= 0.2 gives 0.23 and 1.25); '
               'halving: 0.35 |e(dt)| <= |e(dt/2)| <= 0.65 |e(dt)| at the common final time, up to a 1e-9 relative slack for the cancellation omega_0 ~ omega_inf']
EXPLANATION = ('Symbolic execution of Solver.run for N steps with (omega_0, theta_0, T_load) symbolic: the recorded trajectory is an '
               'exact affine form in them; the closed-form solution (independent oracle: rate constant and limit speed from the '
               'chain data) is compared in linear real arithmetic, decided for all initial speeds and loads at once.')
MANIFEST = dict(
    level_text='Bounded symbolic execution of the real Solver.run for N = 16..128 steps on catalogue chains with the initial state '
               'and the constant load as solver variables: the recorded speed and position of the output element are exact affine '
               'forms, and z3 (linear real arithmetic) proves for ALL initial speeds and loads that they stay within c*dt of the '
               'closed-form exponential solution computed by an independent oracle, and that the final-time error scales linearly '
               'over the halvings dt, dt/2, dt/4.',
    level_note='Configurations, dt and horizons are sampled (stated); the limit is represented by three halvings; doubles as reals.',
    technique='symbolic execution of the real Python code (affine trajectories) + z3 (LRA) per path',
    design_ref='DESIGN.md section 5 C04',
)
