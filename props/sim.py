"""Shared simulation harness: runs the real Solver.run (and friends) through the
public API on a catalogue topology, records every time variable of every
element (SI magnitudes as terms), and offers the obligation builders used by
C01, C02, C03, C13, C14, C16, C17."""
from __future__ import annotations

from fractions import Fraction

import z3

from oracles import chain as CH
from oracles import si
from symx.core import T, SR
from symx.harness import HarnessBase
from symx.ob import eq, holds, close, zabs

BASE_VARS = ['angular position', 'angular speed', 'angular acceleration', 'torque', 'driving torque', 'load torque']


def sival(x):
    if x is None:
        return None
    if isinstance(x, (int, float)):
        return x
    return si.si_val(x)


def sival_as(x, kind):
    """SI magnitude of a recorded sample that is supposed to be of `kind`; a sample of another kind (or a bare number
    where a quantity is expected) is reported as the string 'WRONG KIND:<type>' instead of breaking the harness"""
    if x is None:
        return None
    if kind is None:
        return x if isinstance(x, (int, float)) else 'WRONG KIND:' + type(x).__name__
    if type(x).__name__ != kind and not (kind == 'AngularPosition' and type(x).__name__ == 'Angle'):
        return 'WRONG KIND:' + type(x).__name__
    return si.si_val(x)


VAR_KIND = {'angular position': 'AngularPosition', 'angular speed': 'AngularSpeed', 'angular acceleration': 'AngularAcceleration',
            'torque': 'Torque', 'driving torque': 'Torque', 'load torque': 'Torque', 'tangential force': 'Force',
            'bending stress': 'Stress', 'contact stress': 'Stress', 'electric current': 'Current', 'pwm': None}


class TooManyInstants(Exception):
    """the run computed far more instants than the requested grid has (raised from the load callback so that a
    runaway time axis ends the run instead of exhausting the exploration budget)"""


class SimHarness(HarnessBase):
    """
    spec fields:
      topo      : topology name
      full      : L-full (all magnitudes symbolic) or L-state (config + dt concrete)
      schedule  : list of ops: ('run', K) | ('run_stop', K, stopspec) | ('reset',) | ('newsolver',) | ('reinit',)
      control   : None | ('fixed', d) | ('arb', lo, hi) | ('arb2',)   (see _control)
      dt        : concrete dt in seconds (L-state) ; units: dict of unit overrides
      props     : which obligation sets to emit
    """
    validate_max = 25
    max_paths = 4000
    max_seconds = 500

    def __init__(self, topo, full=False, schedule=(('run', 2),), control=None, dt=0.125, units=None,
                 props=('C01',), seed=0, dt_unit='sec', init_units=None, opt=None, tag='', max_paths=None):
        self.topo_name = topo
        self.topo = CH.get_topology(topo, seed)
        self.full = full
        self.schedule = tuple(schedule)
        self.control = control
        self.dt = dt
        self.units = dict(units or {})
        self.dt_unit = dt_unit
        self.init_units = dict(init_units or {})
        self.props = tuple(props)
        self.opt_spec = dict(opt or {})
        self.name = 'sim:%s:%s:%s:%s%s' % (topo, 'full' if full else 'state',
                                           '+'.join('%s%s' % (o[0], o[1] if len(o) > 1 else '') for o in self.schedule),
                                           (control[0] if control else 'nocontrol'), tag)
        self.kmax = 16
        if full:
            self.max_paths = 600
        if max_paths:
            self.max_paths = max_paths
            self.max_seconds = 2000

    def describe(self):
        return dict(topology=self.topo_name, kinds=['motor'] + [k for k, _ in self.topo['elements']],
                    links=[l[0] for l in self.topo['links']], level='L-full' if self.full else 'L-state',
                    schedule=[list(o) for o in self.schedule], control=self.control, dt=self.dt,
                    units=self.units, dt_unit=self.dt_unit, props=list(self.props))

    def finding_key(self, ob, values):
        return 'sim:%s:%s' % (self.topo_name, ob.family)

    def boundary_excuse(self, sym_out, conc_out):
        # T = K*dt exactly is itself a boundary of numpy.arange's half-open test: with a symbolic dt the
        # float replay may legitimately record one more instant (that is property C11's subject)
        if self.full and sym_out.ok and conc_out.ok:
            return sym_out.value['n'] != conc_out.value['n']
        # a cross-unit `==` decides inside an ABSOLUTE band of 1e-12 (recorded finding C05): no float replay can be kept
        # inside such a band, so a differing equal_to reading is a boundary effect, not an engine error
        if sym_out.ok and 'stop' in (sym_out.value or {}) and sym_out.value['stop'].get('op') == 'equal_to':
            return True
        return False

    # ------------------------------------------------------------------ run
    def run(self, env):
        return self._run_one(env, self.schedule)

    def _run_one(self, env, schedule):
        import gearpy.units as gu
        from gearpy.powertrain import Powertrain
        from gearpy.solver import Solver
        M = CH.build(env, self.topo, full=self.full, units=self.units, opt=self._opt())
        rec = dict(load_calls=[], duty=[], raised=None, runs=[])
        last = M.last

        lim = dict(n=10 ** 9)

        def ext(time, angular_position, angular_speed):
            k = len(rec['load_calls'])
            if k >= lim['n']:
                raise TooManyInstants('instant %d computed but the requested grid ends at instant %d' % (k, lim['n'] - 1))
            v = env.real('load') if getattr(self, 'const_load', False) else env.real('load_%d' % k)
            rec['load_calls'].append(dict(t=sival(time), pos=sival(angular_position), spd=sival(angular_speed), val=v, fn=0))
            return gu.Torque(v, 'Nm')
        last.external_torque = ext
        cur_fn = dict(i=0)

        def make_load(j):
            # a NEW load function object the user assigns between two runs (op 'newload'): other values, other unit
            def extj(time, angular_position, angular_speed):
                k = len(rec['load_calls'])
                if k >= lim['n']:
                    raise TooManyInstants('instant %d computed but the requested grid ends at instant %d' % (k, lim['n'] - 1))
                v = env.real('load%s_%d' % (chr(ord('a') + j), k))
                rec['load_calls'].append(dict(t=sival(time), pos=sival(angular_position), spd=sival(angular_speed), val=v, fn=j))
                return gu.Torque(v * 1000, 'mNm')
            return extj
        pt = Powertrain(motor=M.motor)
        rec['self_locking_flag'] = bool(pt.self_locking)
        th0 = env.real('th0')
        om0 = env.real('om0')
        self._set_init(gu, last, th0, om0)
        if self.full:
            dt = env.real('dt', lo=0, lo_open=True)
        else:
            dt = self.dt
        rec['dt'] = dt
        ctl = self._control(env, pt, M, rec)
        solver = Solver(powertrain=pt)
        stops = {}
        rec['pwm_before'] = M.motor.pwm
        try:
            for op in schedule:
                if op[0] in ('run', 'run_stop', 'run_nc'):
                    K = op[1]
                    # ('run', K[, unit of dt[, factor on dt[, unit of the simulation time[, (unit dt was built in, unit T was built in)]]]])
                    # - the last pair: the objects were converted IN PLACE to their final units before the call
                    plain = op[0] != 'run_stop'
                    unit = op[2] if (plain and len(op) > 2 and op[2]) else self.dt_unit
                    scale = op[3] if (plain and len(op) > 3) else 1
                    t_unit = op[4] if (plain and len(op) > 4) else unit
                    dts = dt * scale if scale != 1 else dt
                    f_u = float(si.SI['Time'][unit])
                    dtq = gu.TimeInterval(dts / f_u if unit != 'sec' else dts, unit)
                    pre = op[5] if (plain and len(op) > 5) else (None, None)
                    if pre[0]:
                        # the dt object was built in another unit and converted in place before the call
                        f_p = float(si.SI['Time'][pre[0]])
                        dtq = gu.TimeInterval(dts / f_p if pre[0] != 'sec' else dts, pre[0])
                        dtq.to(unit, inplace=True)
                    if t_unit == unit and not pre[1]:
                        Tq = dtq * K
                    else:
                        u0 = pre[1] or t_unit
                        f_t = float(si.SI['Time'][u0])
                        Tq = gu.TimeInterval(dts * K / f_t if u0 != 'sec' else dts * K, u0)
                        if pre[1]:
                            Tq.to(t_unit, inplace=True)
                    stop = None
                    if op[0] == 'run_stop':
                        # the same StopCondition object serves every run of the schedule that names the same condition
                        if op[2] not in stops:
                            stops[op[2]] = self._stop(gu, env, M, op[2], rec)
                        stop = stops[op[2]]
                    n0 = len(pt.time)
                    lim['n'] = (n0 + K) if n0 else (K + 1)
                    rec['runs'].append(dict(K=K, start=n0, end=None, stopped=op[0] == 'run_stop', dt=dts,
                                            controlled=(ctl is not None and op[0] != 'run_nc')))
                    solver.run(time_discretization=dtq, simulation_time=Tq,
                               motor_control=None if op[0] == 'run_nc' else ctl, stop_condition=stop)
                    rec['runs'][-1]['end'] = len(pt.time)
                elif op[0] == 'reset':
                    pt.reset()
                    # the history restarts: per-instant callbacks are indexed from 0 again
                    rec.setdefault('before_reset', []).append(dict(load_calls=rec['load_calls'], duty=rec['duty'],
                                                                   runs=rec['runs']))
                    rec['load_calls'], rec['duty'], rec['runs'] = [], [], []
                elif op[0] == 'newsolver':
                    solver = Solver(powertrain=pt)
                elif op[0] == 'newload':
                    cur_fn['i'] += 1
                    last.external_torque = make_load(cur_fn['i'])
                    rec.setdefault('load_fn_from', []).append((len(pt.time), cur_fn['i']))
                elif op[0] == 'setpwm':
                    M.motor.pwm = op[1]         # the user sets the duty cycle between two runs
                elif op[0] in ('reinit', 'reinit_state'):
                    # what gearpy's documentation calls the initial conditions: position and speed of the last element.
                    # Everything else (the motor's duty cycle included) is reset()'s business.
                    self._set_init(gu, last, th0, om0)
                elif op[0] == 'reinit_other':
                    # after a reset the user starts a NEW simulation from other initial conditions
                    self._set_init(gu, last, env.real('th0b'), env.real('om0b'))
        except (ValueError, TypeError, ZeroDivisionError, KeyError, AttributeError, IndexError, TooManyInstants) as e:
            rec['raised'] = type(e).__name__
            rec['raised_msg'] = str(e)[:120]
        for r in rec['runs']:
            if r['end'] is None:
                r['end'] = len(pt.time)
        self._record(rec, pt, M)
        if 'C09' in self.props:
            rec['recomputed'] = self._recompute_forces(M)
        if 'stop' in rec:
            self._stop_readings(rec, M)
        if not env.symbolic and 'C17' in self.props and rec['raised'] is None and rec['n'] >= 2:
            rec['_io'] = self._snapshot_and_export(pt, M)
        return rec

    @staticmethod
    def _snapshot_and_export(pt, M):
        import io, contextlib, tempfile, shutil, os
        res = {}
        try:
            with contextlib.redirect_stdout(io.StringIO()):
                pt.snapshot(target_time=pt.time[len(pt.time) // 2], print_data=False)
            res['snapshot'] = 'ok'
        except Exception as e:  # noqa
            res['snapshot'] = '%s: %s' % (type(e).__name__, str(e)[:100])
        d = tempfile.mkdtemp(prefix='verif_c17_')
        try:
            pt.export_time_variables(folder_path=d)
            res['export'] = 'ok'
        except Exception as e:  # noqa
            res['export'] = '%s: %s' % (type(e).__name__, str(e)[:100])
        finally:
            shutil.rmtree(d, ignore_errors=True)
        return res

    def _stop_readings(self, rec, M):
        """apply the library's own operator to every recorded sample of the sensed variable"""
        from gearpy.utils import StopCondition
        st = rec['stop']
        q = st.pop('thr_q')
        opf = getattr(StopCondition, st['op'])
        samples = M.objs[st['idx']].time_variables[st['var']]
        st['truth'] = [bool(opf(sensor_value=x, threshold=q)) for x in samples]

    def _opt(self):
        """optional constructor data: {element index: (('module', mm), ('face_width', mm), ('elastic_modulus', GPa),
        ('reference_diameter', mm))} -> gearpy quantities"""
        import gearpy.units as gu
        out = {}
        for idx, items in self.opt_spec.items():
            d = {}
            for k, v in dict(items).items():
                # magnitudes are given in mm / GPa; units['opt_<name>'] re-expresses one (same physical magnitude)
                if k in ('module', 'face_width', 'reference_diameter'):
                    u = (self.units or {}).get('opt_' + k, 'mm')
                    d[k] = gu.Length(v if u == 'mm' else float(Fraction(v) * si.SI['Length']['mm'] / si.SI['Length'][u]), u)
                elif k == 'elastic_modulus':
                    u = (self.units or {}).get('opt_' + k, 'GPa')
                    d[k] = gu.Stress(v if u == 'GPa' else float(Fraction(v) * si.SI['Stress']['GPa'] / si.SI['Stress'][u]), u)
            out[idx] = d
        return out

    def _set_init(self, gu, last, th0, om0):
        pu = self.init_units.get('pos', 'rad')
        su = self.init_units.get('spd', 'rad/s')
        fp = float(si.SI['AngularPosition'][pu])
        fs = float(si.SI['AngularSpeed'][su])
        last.angular_position = gu.AngularPosition(th0 / fp if pu != 'rad' else th0, pu)
        last.angular_speed = gu.AngularSpeed(om0 / fs if su != 'rad/s' else om0, su)

    def _control(self, env, pt, M, rec):
        c = self.control
        if c is None:
            return None
        if c[0] == 'fixed':
            M.motor.pwm = c[1]
            return None
        from gearpy.motor_control import PWMControl
        from gearpy.motor_control.rules.rules_base import RuleBase
        ctl = PWMControl(powertrain=pt)
        if c[0] == 'arb':
            lo, hi = c[1], c[2]

            class Arb(RuleBase):
                def __init__(s):
                    pass

                def apply(s):
                    k = len(rec['duty'])
                    d = env.real('duty_%d' % k, lo=lo, hi=hi)
                    rec['duty'].append(d)
                    return d
            ctl.add_rule(Arb())
            return ctl
        if c[0] == 'const':
            # built-in ConstantPWM rules: ((start, duration, value), ...) in seconds
            import gearpy.units as gu
            from gearpy.motor_control.rules import ConstantPWM
            from gearpy.sensors import Timer
            for (st, du, val) in c[1]:
                ctl.add_rule(ConstantPWM(timer=Timer(start_time=gu.Time(st, 'sec'), duration=gu.TimeInterval(du, 'sec')),
                                         powertrain=pt, target_pwm_value=val))
            return ctl
        if c[0] == 'startlim':
            # built-in StartLimitCurrent (encoder on the last element, tachometer on the motor), concrete parameters
            import gearpy.units as gu
            from gearpy.motor_control.rules import StartLimitCurrent
            from gearpy.sensors import AbsoluteRotaryEncoder, Tachometer
            rec['startlim'] = dict(ilim=c[1], tgt=c[2])
            ctl.add_rule(StartLimitCurrent(encoder=AbsoluteRotaryEncoder(target=M.last), tachometer=Tachometer(target=M.motor),
                                           motor=M.motor, target_angular_position=gu.AngularPosition(c[2], 'rad'),
                                           limit_electric_current=gu.Current(c[1], 'A')))
            return ctl
        if c[0] == 'arbopt2':
            # two optional arbitrary rules: both may be applicable at the same instant
            rec['props2'] = []

            def mk(j):
                class Opt(RuleBase):
                    def __init__(s):
                        pass

                    def apply(s):
                        k = len(rec['props2']) // 2 if j == 0 else (len(rec['props2']) - 1) // 2
                        sel = env.real('sel%d_%d' % (j, k))
                        v = env.real('prop%d_%d' % (j, k), lo=-1, hi=1) if sel > 0 else None
                        rec['props2'].append(v)
                        return v
                return Opt()
            ctl.add_rule(mk(0))
            ctl.add_rule(mk(1))
            return ctl
        raise KeyError(c)

    def _stop(self, gu, env, M, spec, rec):
        """spec = (sensor kind, element index, operator name, threshold unit)"""
        from gearpy.sensors import AbsoluteRotaryEncoder, Tachometer, Amperometer
        from gearpy.utils import StopCondition
        kind, idx, opname, unit = spec
        thr = env.real('thr')
        if kind == 'encoder':
            sensor = AbsoluteRotaryEncoder(target=M.objs[idx])
            q = gu.AngularPosition(thr, unit)
            var = 'angular position'
        elif kind == 'tachometer':
            sensor = Tachometer(target=M.objs[idx])
            q = gu.AngularSpeed(thr, unit)
            var = 'angular speed'
        else:
            sensor = Amperometer(target=M.motor)
            q = gu.Current(thr, unit)
            var = 'electric current'
            idx = 0
        rec['stop'] = dict(var=var, idx=idx, op=opname, thr=sival(q), thr_q=q)
        return StopCondition(sensor=sensor, threshold=q, operator=getattr(StopCondition, opname))

    def _record(self, rec, pt, M):
        rec['time'] = [sival(t) for t in pt.time]
        rec['n'] = len(pt.time)
        els = []
        for ob in M.objs:
            d = {}
            for var, lst in ob.time_variables.items():
                d[var] = [sival_as(x, VAR_KIND.get(var)) for x in lst]
            els.append(d)
        rec['el'] = els
        rec['cur'] = [dict(pos=sival(o.angular_position), spd=sival(o.angular_speed), acc=sival(o.angular_acceleration),
                           tq=sival(o.torque), drv=sival(o.driving_torque), load=sival(o.load_torque))
                      for o in M.objs]
        # oracle parameters (terms or numbers)
        rec['P'] = dict(J=list(M.J), rho=list(M.rho), eta=list(M.eta),
                        w0=M.w0, Tmax=M.Tmax, i0=M.i0, imax=M.imax, locking=M.locking)

    def _recompute_forces(self, M):
        """C09 at simulation level: for every recorded instant, put the element's recorded reference torques back and
        call the element's own compute_tangential_force / compute_bending_stress / compute_contact_stress (whose
        formulas the method-level C09 harnesses check against the documented ones): the recorded samples must be
        what these give. Returns, per element, {variable: [value per instant]}."""
        out = []
        saved = []
        for o in M.objs:
            saved.append({a: getattr(o, a, None) for a in ('driving_torque', 'load_torque', 'tangential_force',
                                                            'bending_stress', 'contact_stress')})
        n = min(len(o.time_variables['driving torque']) for o in M.objs)
        per = [dict() for _ in M.objs]
        for k in range(n):
            # tangential forces first (a gear's contact stress reads its own force; bending stress too)
            for i, o in enumerate(M.objs):
                tv = o.time_variables
                if 'tangential force' not in tv:
                    continue
                o.driving_torque = tv['driving torque'][k]
                o.load_torque = tv['load torque'][k]
                try:
                    o.compute_tangential_force()
                    per[i].setdefault('tangential force', []).append(sival_as(o.tangential_force, VAR_KIND.get('tangential force')))
                    if 'bending stress' in tv:
                        o.compute_bending_stress()
                        per[i].setdefault('bending stress', []).append(sival_as(o.bending_stress, VAR_KIND.get('bending stress')))
                    if 'contact stress' in tv:
                        o.compute_contact_stress()
                        per[i].setdefault('contact stress', []).append(sival_as(o.contact_stress, VAR_KIND.get('contact stress')))
                except (ValueError, TypeError, ZeroDivisionError, AttributeError) as e:
                    per[i].setdefault('_error', []).append('%s: %s' % (type(e).__name__, str(e)[:80]))
        for o, sv in zip(M.objs, saved):
            for a, v in sv.items():
                if v is not None:
                    try:
                        setattr(o, a, v)
                    except Exception:  # noqa
                        pass
        return per

    def ob_C09(self, rec):
        obs = []
        E = rec['el']
        R = rec.get('recomputed') or []
        obs.append(holds('simst.recomputed', len(R) == len(E), info='%d vs %d' % (len(R), len(E))))
        n = self._n_common(rec)
        for i in range(min(len(R), len(E))):
            if R[i].get('_error'):
                obs.append(holds('simst.formula_applies[i=%d]' % i, False, info=str(R[i]['_error'][:2])))
            for var in ('tangential force', 'bending stress', 'contact stress'):
                if var not in E[i]:
                    continue
                got, exp = E[i][var], R[i].get(var, [])
                for k in range(min(n, len(got))):
                    if k >= len(exp) or got[k] is None or exp[k] is None:
                        obs.append(holds('simst.sample_present[i=%d,%s,k=%d]' % (i, var, k), False,
                                         info='recorded %r, formula %r' % (got[k], exp[k] if k < len(exp) else None)))
                        continue
                    obs.append(eq('simst.%s_follows_the_recorded_torques[i=%d,k=%d]' % (var.replace(' ', '_'), i, k),
                                  got[k], exp[k], prefer_robust=False))
        return obs

    # ---------------------------------------------------------- obligations
    def obligations(self, out):
        if not out.ok:
            return [holds('run_completes', False, info=repr(out.exc))]
        rec = out.value
        obs = []
        if rec['raised'] is not None and 'C17' in self.props and rec['raised'] == 'ValueError' and (
                'Gear mating not defined' in rec.get('raised_msg', '') or 'Impossible to compute contact stress'
                in rec.get('raised_msg', '')):
            # documented refusal (C09): such a model is never "simulated", outside C17's quantifier
            return [holds('tv.documented_refusal', True)]
        if rec['raised'] is not None and 'C14' not in self.props:
            obs.append(holds('run_completes', False, info='%s: %s' % (rec['raised'], rec.get('raised_msg'))))
        for p in self.props:
            obs += getattr(self, 'ob_' + p)(rec)
        return obs

    # exact ratios as Fractions (rho recorded as float for flatten; use M.rho here)
    @staticmethod
    def _rho(rec, i):
        r = rec['P']['rho'][i]
        return z3.RealVal(r) if isinstance(r, Fraction) else T(r)

    @staticmethod
    def _jeq(rec):
        """documented reduction: start from the motor inertia and, moving downstream, multiply the running
        total by each element's gear ratio and add that element's inertia"""
        P = rec['P']
        J = T(P['J'][0])
        for i in range(1, len(P['J'])):
            J = J * SimHarness._rho(rec, i) + T(P['J'][i])
        return J

    def _eta(self, rec, i):
        return T(rec['P']['eta'][i])

    def _n_common(self, rec):
        """number of instants for which every base variable of every element has a sample"""
        n = rec['n']
        for d in rec['el']:
            for v in BASE_VARS:
                lst = d[v]
                m = len(lst)
                for j, x in enumerate(lst):
                    if isinstance(x, str):
                        m = j
                        break
                n = min(n, m)
        return n

    def ob_C01(self, rec):
        obs = []
        n = self._n_common(rec)
        E = rec['el']
        obs.append(holds('kin.history_complete', n == rec['n'] and n >= 1, info='n=%d time=%d' % (n, rec['n'])))
        for k in range(n):
            for i in range(1, len(E)):
                r = self._rho(rec, i)
                for var, tag in (('angular position', 'pos'), ('angular speed', 'spd'), ('angular acceleration', 'acc')):
                    up, dn = E[i - 1][var][k], E[i][var][k]
                    if up is None or dn is None:
                        obs.append(holds('kin.%s_defined[k=%d,i=%d]' % (tag, k, i), False))
                        continue
                    obs.append(eq('kin.%s[k=%d,i=%d]' % (tag, k, i), up, r * T(dn)))
        return obs

    def ob_C02(self, rec):
        obs = []
        n = self._n_common(rec)
        E = rec['el']
        P = rec['P']
        pw = E[0].get('pwm', [])
        obs.append(holds('tq.history_complete', n == rec['n'] and len(pw) == n and len(rec['load_calls']) == n,
                         info='n=%d time=%d pwm=%d loadcalls=%d' % (n, rec['n'], len(pw), len(rec['load_calls']))))
        n = min(n, len(pw), len(rec['load_calls']))
        L = len(E) - 1
        for k in range(n):
            law = CH.motor_torque_law(E[0]['angular speed'][k], pw[k], P['w0'], P['Tmax'], P['i0'], P['imax'])
            obs.append(eq('tq.motor_law[k=%d]' % k, E[0]['driving torque'][k], law, scale=(P['Tmax'],),
                          prefer_robust=False))
            for i in range(1, len(E)):
                # the worm efficiency is a float expression of cos/tan: the oracle's value differs by rounding
                wr = self.topo['links'][i - 1][0] == 'worm'
                obs.append(eq('tq.drive[k=%d,i=%d]' % (k, i), E[i]['driving torque'][k],
                              T(E[i - 1]['driving torque'][k]) * self._eta(rec, i) * self._rho(rec, i), prefer_robust=wr))
                obs.append(eq('tq.load_up[k=%d,i=%d]' % (k, i), T(E[i - 1]['load torque'][k]) * self._eta(rec, i) * self._rho(rec, i),
                              E[i]['load torque'][k], prefer_robust=wr))
            c = rec['load_calls'][k]
            obs.append(eq('tq.load_value[k=%d]' % k, E[L]['load torque'][k], c['val']))
            if rec.get('load_fn_from'):
                want = max([j for (start, j) in rec['load_fn_from'] if start <= k] or [0])
                obs.append(holds('tq.load_is_the_current_function[k=%d]' % k, c.get('fn', 0) == want,
                                 info='instant %d evaluated load function #%s, the one assigned is #%d' % (k, c.get('fn'), want)))
            obs.append(eq('tq.load_arg_pos[k=%d]' % k, c['pos'], E[L]['angular position'][k]))
            obs.append(eq('tq.load_arg_spd[k=%d]' % k, c['spd'], E[L]['angular speed'][k]))
            obs.append(eq('tq.load_arg_time[k=%d]' % k, c['t'], rec['time'][k]))
            for i in range(len(E)):
                obs.append(eq('tq.net[k=%d,i=%d]' % (k, i), E[i]['torque'][k],
                              T(E[i]['driving torque'][k]) - T(E[i]['load torque'][k]),
                              scale=(E[i]['driving torque'][k], E[i]['load torque'][k])))
        return obs

    def _held_obs(self, rec, k):
        """all speeds and accelerations recorded at instant k are zero"""
        E = rec['el']
        return z3.And([T(E[i]['angular speed'][k]) == 0 for i in range(len(E))] +
                      [T(E[i]['angular acceleration'][k]) == 0 for i in range(len(E))])

    def ob_C03(self, rec):
        obs = []
        n = self._n_common(rec)
        E = rec['el']
        L = len(E) - 1
        Jeq = self._jeq(rec)
        dt = T(rec['dt'])
        lock = rec['P']['locking']
        obs.append(holds('eom.history_complete', n == rec['n'] and n >= 1))
        # consecutive instants inside one run or across a continuation (not across a reset)
        pairs = self._consecutive(rec, n)
        for k in range(n):
            a, net = T(E[L]['angular acceleration'][k]), T(E[L]['torque'][k])
            follows = close(a * Jeq, net, 1e-9)
            exact = a * Jeq == net
            if lock:
                h = self._held_obs(rec, k)
                obs.append(_ob2('eom.acc[k=%d]' % k, z3.Or(exact, h), z3.Or(follows, h), prefer_robust=not self.full))
            else:
                obs.append(_ob2('eom.acc[k=%d]' % k, exact, follows, prefer_robust=not self.full))
        for k in pairs:
            dt = self._dt_at(rec, k)
            w_prev, a_prev = T(E[L]['angular speed'][k - 1]), T(E[L]['angular acceleration'][k - 1])
            adv = w_prev + a_prev * dt
            w = T(E[L]['angular speed'][k])
            if lock:
                obs.append(_ob2('eom.speed[k=%d]' % k, z3.Or(w == adv, w == 0),
                                z3.Or(close(w, adv, 1e-9, 0, (w_prev, a_prev * dt)), w == 0)))
            else:
                obs.append(eq('eom.speed[k=%d]' % k, w, adv, scale=(w_prev, a_prev * dt)))
            th_prev = T(E[L]['angular position'][k - 1])
            obs.append(eq('eom.position[k=%d]' % k, E[L]['angular position'][k], th_prev + adv * dt,
                          scale=(th_prev, w_prev * dt, a_prev * dt * dt)))
        return obs

    def _dt_at(self, rec, k):
        """the time discretization of the run() call that computed instant k (each call has its own)"""
        for r in rec['runs']:
            s, e = r['start'], r['end']
            first = 1 if s == 0 else s
            if first <= k < e:
                return T(r['dt'])
        return T(rec['dt'])

    def _consecutive(self, rec, n):
        """indices k (>=1) such that instants k-1 and k are consecutive steps of the simulation"""
        ks = []
        prev_end = None
        for r in rec['runs']:
            s, e = r['start'], min(r['end'], n)
            first = s + 1 if s == 0 else s      # a continuation's first new instant follows the previous last one
            for k in range(max(first, 1), e):
                ks.append(k)
        # after a reset the history restarts at index 0; runs record their own start index
        return sorted(set(k for k in ks if k < n))

    def ob_C13(self, rec):
        obs = []
        n = self._n_common(rec)
        E = rec['el']
        L = len(E) - 1
        lock = rec['P']['locking']
        pw = E[0].get('pwm', [])
        Jeq = self._jeq(rec)
        dt = T(rec['dt'])
        obs.append(holds('lock.flag_matches_criterion', rec['self_locking_flag'] == lock,
                         info='flag=%s oracle=%s' % (rec['self_locking_flag'], lock)))
        n = min(n, len(pw))
        pairs = set(self._consecutive(rec, n))
        for k in range(n):
            a, net = T(E[L]['angular acceleration'][k]), T(E[L]['torque'][k])
            if not lock:
                obs.append(eq('lock.never_clamped_acc[k=%d]' % k, a * Jeq, net, prefer_robust=not self.full))
                if k in pairs:
                    dt = self._dt_at(rec, k)
                    w_prev = T(E[L]['angular speed'][k - 1])
                    a_prev = T(E[L]['angular acceleration'][k - 1])
                    obs.append(eq('lock.never_clamped_speed[k=%d]' % k, E[L]['angular speed'][k],
                                  w_prev + a_prev * dt, scale=(w_prev, a_prev * dt)))
                continue
            D = T(pw[k - 1]) if k >= 1 else T(rec['pwm_before'])
            wm = T(E[0]['angular speed'][k])
            if k >= 1 and k not in pairs:
                continue
            obs.append(holds('lock.zero_duty_zero_speed[k=%d]' % k, wm == 0, trigger=(D == 0)))
            obs.append(holds('lock.pos_duty_nonneg_speed[k=%d]' % k, wm >= 0, trigger=(D > 0)))
            obs.append(holds('lock.neg_duty_nonpos_speed[k=%d]' % k, wm <= 0, trigger=(D < 0)))
            obs.append(holds('lock.clamp_is_total[k=%d]' % k, self._held_obs(rec, k),
                             trigger=z3.Not(close(a * Jeq, net, 1e-9))))
            if k >= 1:
                hprev = self._held_obs(rec, k - 1)
                same = z3.And([T(E[i]['angular position'][k]) == T(E[i]['angular position'][k - 1])
                               for i in range(len(E))])
                obs.append(holds('lock.held_positions_constant[k=%d]' % k, same, trigger=hprev))
                # motion resumes (non-zero acceleration after a hold that violated the equation of motion)
                aprev, netprev = T(E[L]['angular acceleration'][k - 1]), T(E[L]['torque'][k - 1])
                was_clamped = z3.And(hprev, netprev != 0)
                mt = T(E[0]['torque'][k - 1])
                obs.append(holds('lock.release_needs_commanded_torque[k=%d]' % k,
                                 z3.Or(z3.And(D > 0, mt > 0), z3.And(D < 0, mt < 0)),
                                 trigger=z3.And(was_clamped, a != 0)))
        return obs

    def ob_C14(self, rec):
        """recorded duty cycles within [-1,1]; with the arbitrary rule: pwm[k] == clip(proposal_k)"""
        obs = []
        E = rec['el']
        pw = E[0].get('pwm', [])
        for k, p in enumerate(pw):
            obs.append(holds('pwm.in_range[k=%d]' % k, z3.And(T(p) >= -1, T(p) <= 1)))
        if self.control and self.control[0] == 'arb':
            obs.append(holds('pwm.one_proposal_per_instant', len(rec['duty']) == len(pw) == rec['n'],
                             info='duty=%d pwm=%d n=%d' % (len(rec['duty']), len(pw), rec['n'])))
            for k in range(min(len(pw), len(rec['duty']))):
                d = T(rec['duty'][k])
                clip = z3.If(d > 1, z3.RealVal(1), z3.If(d < -1, z3.RealVal(-1), d))
                obs.append(eq('pwm.single_rule_clipped[k=%d]' % k, pw[k], clip))
        if self.control is None:
            for k, p in enumerate(pw):
                obs.append(eq('pwm.default_without_control[k=%d]' % k, p, rec['pwm_before']))
        if self.control and self.control[0] == 'const':
            # timer rules with concrete windows on a concrete time grid: the expected duty cycle is known per instant
            tms = rec['time']
            for k in range(min(len(pw), len(tms))):
                t = float(tms[k]) if not isinstance(tms[k], SR) else None
                if t is None:
                    continue
                act = [val for (st, du, val) in self.control[1] if st <= t <= st + du]
                if len(act) == 1:
                    obs.append(eq('pwm.timer_rule_value[k=%d]' % k, pw[k], act[0]))
                elif not act:
                    obs.append(eq('pwm.default_when_no_timer_rule[k=%d]' % k, pw[k], 1))
            obs.append(holds('pwm.timer_rules_history_complete', len(pw) == rec['n'] and rec['raised'] is None,
                             info='pwm=%d n=%d raised=%s' % (len(pw), rec['n'], rec['raised'])))
        if self.control and self.control[0] == 'arbopt2':
            pr = rec['props2']
            pairs = [(pr[2 * k], pr[2 * k + 1]) for k in range(len(pr) // 2)]
            conflict_at = None
            for k, (a, b) in enumerate(pairs):
                if a is not None and b is not None:
                    conflict_at = k
                    break
            if conflict_at is None:
                obs.append(holds('pwm.no_error_without_conflict', rec['raised'] is None,
                                 info='%s: %s' % (rec['raised'], rec.get('raised_msg'))))
                for k, (a, b) in enumerate(pairs[:len(pw)]):
                    if a is None and b is None:
                        obs.append(eq('pwm.default_is_one[k=%d]' % k, pw[k], 1))
                    else:
                        obs.append(eq('pwm.single_rule_wins[k=%d]' % k, pw[k], a if a is not None else b))
            else:
                obs.append(holds('pwm.conflict_raises_ValueError', rec['raised'] == 'ValueError',
                                 info='two applicable rules at instant %d, raised=%s' % (conflict_at, rec['raised'])))
                obs.append(holds('pwm.simulation_stops_at_conflict', len(pw) == conflict_at and len(pairs) == conflict_at + 1,
                                 info='conflict at instant %d but %d duty cycles recorded, %d instants consulted'
                                      % (conflict_at, len(pw), len(pairs))))
        return obs

    def ob_C15(self, rec):
        """whole controlled simulation: while StartLimitCurrent is in force (theta <= target) and its proposal is not
        clipped and outside the dead zone, the recorded motor current equals the limit"""
        obs = []
        E = rec['el']
        L = len(E) - 1
        P = rec['P']
        sl = rec.get('startlim')
        pw = E[0].get('pwm', [])
        cur = E[0].get('electric current', [])
        n = min(self._n_common(rec), len(pw), len(cur))
        obs.append(holds('ctl.history_complete', sl is not None and n == rec['n'] and n >= 2 and rec['raised'] is None,
                         info='n=%d of %d raised=%s' % (n, rec['n'], rec['raised'])))
        if sl is None:
            return obs
        i0, imax = T(P['i0']), T(P['imax'])
        for k in range(n):
            D = T(pw[k])
            in_force = T(E[L]['angular position'][k]) <= z3.RealVal(Fraction(sl['tgt']))
            unclipped = z3.And(D < 1, D > -1)
            outside_dead = z3.Or(D * imax > i0, -D * imax > i0)
            obs.append(eq('ctl.current_equals_limit[k=%d]' % k, cur[k], sl['ilim'], tol=1e-9, prefer_robust=True,
                          trigger=z3.And(in_force, unclipped, outside_dead)))
        return obs

    def ob_C16(self, rec):
        obs = []
        if 'stop' not in rec or 'truth' not in rec['stop']:
            return [holds('stop.condition_installed', False)]
        st = rec['stop']
        r = rec['runs'][-1]
        fresh = r['start'] == 0
        first = 1 if fresh else r['start']
        full_end = (r['K'] + 1) if fresh else r['start'] + r['K']
        truth, end = st['truth'], r['end']
        obs.append(holds('stop.samples_complete', len(truth) == rec['n'] == end,
                         info='truth=%d n=%d end=%d' % (len(truth), rec['n'], end)))
        obs.append(holds('stop.not_longer_than_grid', end <= full_end, info='end=%d full=%d' % (end, full_end)))
        for k in range(first, min(end, len(truth)) - 1):
            obs.append(holds('stop.false_before_last[k=%d]' % k, not truth[k],
                             info='condition already true at instant %d but the run went on to %d' % (k, end - 1)))
        if end < full_end and len(truth) >= end >= 1:
            obs.append(holds('stop.true_at_early_end', truth[end - 1] and end - 1 >= first,
                             info='run ended at instant %d of %d with the condition false' % (end - 1, full_end - 1)))
        if end == full_end:
            obs.append(holds('stop.full_length_run', True))
        for i, d in enumerate(rec['el']):
            for var, lst in d.items():
                obs.append(holds('stop.nothing_after_last[i=%d,%s]' % (i, var), len(lst) == end))
        return obs

    def ob_C17(self, rec):
        obs = []
        n = rec['n']
        kinds = {'angular position': 'AngularPosition', 'angular speed': 'AngularSpeed',
                 'angular acceleration': 'AngularAcceleration', 'torque': 'Torque', 'driving torque': 'Torque',
                 'load torque': 'Torque', 'tangential force': 'Force', 'bending stress': 'Stress',
                 'contact stress': 'Stress', 'electric current': 'Current'}
        for i, d in enumerate(rec['el']):
            for var, lst in d.items():
                obs.append(holds('tv.one_sample_per_instant[i=%d,%s]' % (i, var), len(lst) == n,
                                 info='%s of element %d: %d samples for %d instants' % (var, i, len(lst), n)))
                obs.append(holds('tv.no_missing_sample[i=%d,%s]' % (i, var), all(x is not None for x in lst)))
                bad = [x for x in lst if isinstance(x, str)]
                obs.append(holds('tv.sample_is_of_the_variable_kind[i=%d,%s]' % (i, var), not bad, info='%s' % bad[:3]))
        if '_io' in rec:
            obs.append(holds('tv.snapshot_succeeds', rec['_io']['snapshot'] == 'ok', info=rec['_io']['snapshot']))
            obs.append(holds('tv.export_succeeds', rec['_io']['export'] == 'ok', info=rec['_io']['export']))
        for i, c in enumerate(rec['cur']):
            d = rec['el'][i]
            for var, key in (('angular position', 'pos'), ('angular speed', 'spd'), ('angular acceleration', 'acc'),
                             ('torque', 'tq'), ('driving torque', 'drv'), ('load torque', 'load')):
                if d[var] and d[var][-1] is not None and c[key] is not None and not isinstance(d[var][-1], str):
                    obs.append(eq('tv.last_sample_is_current[i=%d,%s]' % (i, var), d[var][-1], c[key]))
        return obs


class TwinHarness(SimHarness):
    """two executions of the same model inside one exploration (shared symbols, shared per-instant load values):
    their histories must coincide (C12)"""

    def __init__(self, topo, schedule_a=(), schedule_b=(), **kw):
        kw.setdefault('props', ('C12',))
        super().__init__(topo, schedule=schedule_b, **kw)
        self.schedule_a = tuple(schedule_a)
        self.schedule_b = tuple(schedule_b)
        self.name = 'twin:%s:%s|%s:%s%s' % (topo, _sname(schedule_a), _sname(schedule_b),
                                            (self.control[0] if self.control else 'nocontrol'), kw.get('tag', ''))

    def describe(self):
        d = super().describe()
        d.update(schedule_a=[list(o) for o in self.schedule_a], schedule_b=[list(o) for o in self.schedule_b])
        return d

    def finding_key(self, ob, values):
        return 'twin:%s:%s|%s:%s' % (self.topo_name, _sname(self.schedule_a), _sname(self.schedule_b), ob.family)

    def run(self, env):
        a = self._run_one(env, self.schedule_a)
        b = self._run_one(env, self.schedule_b)
        return dict(A=a, B=b)

    def boundary_excuse(self, sym_out, conc_out):
        return False

    def obligations(self, out):
        if not out.ok:
            return [holds('run_completes', False, info=repr(out.exc))]
        A, B = out.value['A'], out.value['B']
        obs = []
        for tag, r in (('A', A), ('B', B)):
            if r['raised'] is not None:
                obs.append(holds('run_completes', False, info='%s: %s: %s' % (tag, r['raised'], r.get('raised_msg'))))
        obs.append(holds('same.number_of_instants', A['n'] == B['n'], info='A has %d instants, B has %d' % (A['n'], B['n'])))
        n = min(A['n'], B['n'])
        for k in range(n):
            obs.append(eq('same.time[k=%d]' % k, A['time'][k], B['time'][k], tol=1e-9))
        for i, (ea, eb) in enumerate(zip(A['el'], B['el'])):
            for var in ea:
                la, lb = ea[var], eb.get(var, [])
                obs.append(holds('same.samples[i=%d,%s]' % (i, var), len(la) == len(lb),
                                 info='%s of element %d: %d vs %d samples' % (var, i, len(la), len(lb))))
                for k in range(min(len(la), len(lb))):
                    if la[k] is None or lb[k] is None:
                        obs.append(holds('same.defined[i=%d,%s,k=%d]' % (i, var, k), la[k] is None and lb[k] is None))
                        continue
                    if var == 'contact stress' and isinstance(la[k], SR) and isinstance(lb[k], SR):
                        # a square root on both sides (two auxiliaries y with y*y == radicand): compare the squares, which
                        # the facts turn into the (affine) radicands
                        obs.append(eq('same.history[i=%d,%s,k=%d]' % (i, var, k), T(la[k]) * T(la[k]), T(lb[k]) * T(lb[k]), tol=4e-9))
                        continue
                    obs.append(eq('same.history[i=%d,%s,k=%d]' % (i, var, k), la[k], lb[k], tol=1e-9))
        return obs


def _sname(sched):
    return '+'.join(''.join(str(x) for x in o if not isinstance(x, tuple)) for o in sched)


def _ob2(name, exact, robust, trigger=None, prefer_robust=False):
    from symx.ob import Ob
    o = Ob(name, exact, robust, trigger)
    o.prefer_robust = prefer_robust
    return o


# ----------------------------------------------------------------------------
# spec lists shared by the simulation properties
# ----------------------------------------------------------------------------
NONLOCK = ['T1', 'T2', 'T3', 'T5', 'T6', 'T10']
LOCK = ['T4', 'T7']


def spec(topo, **kw):
    return ('sim', topo, tuple(sorted(kw.items())))


def build_spec(sp, props, cls=None):
    _, topo, kw = sp
    kw = dict(kw)
    kw.setdefault('props', props)
    return (cls or SimHarness)(topo, **kw)


def common_specs(tier, seed, arb=True, locking=True, units=True):
    S = []
    R2 = (('run', 2),)
    for t in NONLOCK:
        S.append(spec(t, full=True, schedule=R2))
    for t in NONLOCK + (LOCK if locking else []):
        S.append(spec(t, schedule=(('run', 4),)))
    for t in ['T1', 'T6'] + (['T4'] if locking else []):
        S.append(spec(t, schedule=(('run', 2), ('run', 2))))
    for t in ['T1'] + (['T4'] if locking else []):
        S.append(spec(t, schedule=(('run', 2), ('reset',), ('reinit',), ('run', 2))))
        S.append(spec(t, schedule=(('run', 2), ('reset',), ('reinit',), ('newsolver',), ('run', 2))))
    for t, d in [('T3', 0.5), ('T3', -0.75)] + ([('T4', 0.5), ('T7', -0.75), ('T4', 0)] if locking else []):
        S.append(spec(t, schedule=(('run', 3),), control=('fixed', d)))
    if arb:
        S.append(spec('T3', schedule=R2, control=('arb', -1, 1)))
        if locking:
            S.append(spec('T4', schedule=R2, control=('arb', -1, 1)))
    S.append(spec('T1', schedule=(('run_stop', 3, ('encoder', 2, 'greater_than_or_equal_to', 'rad')),), tag=':stop'))
    S.append(spec('T4' if locking else 'T3', schedule=(('run', 2), ('run_stop', 2, ('tachometer', 0, 'less_than', 'rad/s'))),
                  tag=':stop_cont'))
    if units:
        S.append(spec('T1', schedule=(('run', 3),), dt_unit='ms', init_units=(('pos', 'deg'), ('spd', 'rpm')),
                      units=(('J', 'gcm^2'), ('Tmax', 'mNm'), ('w0', 'rpm')), tag=':units1'))
        S.append(spec('T3', schedule=(('run', 3),), dt_unit='min', init_units=(('pos', 'rot'), ('spd', 'deg/s')),
                      units=(('J', 'kgmm^2'), ('Tmax', 'kgfcm'), ('w0', 'rps'), ('i', 'mA')), tag=':units2'))
    # run, reset, then a new simulation from OTHER initial conditions on the same objects
    for t in ['T1'] + (['T4'] if locking else ['T3']):
        S.append(spec(t, schedule=(('run', 2), ('reset',), ('reinit_other',), ('run', 3)), tag=':reset_other_ic'))
    # every run() call has its own time discretization: a continuation and a rerun after reset with another dt
    # (value and unit), the simulation time given in yet another unit
    S.append(spec('T1', schedule=(('run', 2), ('run', 2, 'ms', 2, 'sec')), tag=':cont_other_dt'))
    S.append(spec('T3', schedule=(('run', 2), ('reset',), ('reinit',), ('run', 2, 'sec', 0.5, 'ms')), tag=':rerun_other_dt'))
    # the user assigns another load function between two runs (continuation) and after a reset
    S.append(spec('T1', schedule=(('run', 2), ('newload',), ('run', 2)), tag=':new_load_function'))
    S.append(spec('T3', schedule=(('run', 2), ('reset',), ('newload',), ('reinit',), ('run', 2)), tag=':new_load_function_after_reset'))
    # the two motor currents given in different units, fractional duty cycles (fixed and arbitrary)
    S.append(spec('T3', schedule=(('run', 3),), control=('fixed', 0.5), units=(('i0u', 'mA'), ('imaxu', 'A')), tag=':mixed_current_units'))
    S.append(spec('T3', schedule=(('run', 2),), control=('arb', -1, 1), units=(('i0u', 'uA'), ('imaxu', 'mA')), tag=':mixed_current_units'))
    if tier == 'thorough':
        import random
        rnd = random.Random(seed)
        for ln in range(2, 13):
            for idx in range(3):
                S.append(spec('S%d_%d' % (ln, idx), schedule=(('run', 3),), seed=seed))
            S.append(spec('S%d_%d' % (ln, 3), schedule=(('run', 2), ('run', 2)), seed=seed))
        for ln in (2, 3, 4, 5, 7):
            S.append(spec('S%d_%d' % (ln, 4), full=True, schedule=R2, seed=seed))
        if units:
            # covering design: every unit of every input kind is used by at least one simulation
            from oracles import si as _si
            kinds = dict(J='InertiaMoment', Tmax='Torque', w0='AngularSpeed', i='Current')
            n = max(len(_si.units_of(k)) for k in list(kinds.values()) + ['Time', 'AngularPosition'])
            for i in range(n):
                pick = lambda kind: _si.units_of(kind)[i % len(_si.units_of(kind))]  # noqa
                S.append(spec(['T1', 'T3', 'T6', 'T5'][i % 4], schedule=(('run', 3),), dt_unit=pick('Time'),
                              init_units=(('pos', pick('AngularPosition')), ('spd', pick('AngularSpeed'))),
                              units=tuple((k, pick(kind)) for k, kind in kinds.items()), tag=':units_cover%d' % i))
        for t in NONLOCK + (LOCK if locking else []):
            S.append(spec(t, schedule=(('run', 5),)))
            S.append(spec(t, schedule=(('run', 2), ('run', 3))))
        if arb and locking:
            S.append(spec('T7', schedule=R2, control=('arb', -1, 1)))
        if arb:
            S.append(spec('T6', schedule=R2, control=('arb', -1, 1)))
    return S

BOUNDS = {
    'quick': 'K steps after the initial instant: K=2 with every continuous parameter symbolic (L-full, fixed duty, '
             'non-locking chains T1,T2,T3,T5,T6,T10 (T10 has an idler gear)) ; K<=4 with configuration and dt concrete and initial state, loads '
             '(fresh symbol per call) symbolic (L-state, T1..T7, T10) ; K=2 with an arbitrary duty cycle in [-1,1] per '
             'instant (T3, T4) ; schedules run(4), run(2)+run(2), run(2)+run(2) and run(2)+reset+rerun with another dt value/unit and the simulation time in a third unit, run(2)+reset+rerun (same/new Solver, same or other initial conditions), another load function assigned between two runs / after a reset, early stop on a fresh run '
             'and during a continuation; chains of 3..8 elements',
    'thorough': 'quick + 44 seeded chains of 2..12 elements (K=3, continuation 2+2), L-full on 5 seeded chains, K=5, 17 unit assignments covering every unit of every input kind, '
                'continuation 2+3, arbitrary duty on T6/T7',
}
OUTSIDE = ('histories longer than K; branched trains (gearpy has none); loads not on the last element; floating-point '
           'rounding of whole simulations (doubles are modelled as reals); K>=3 with an arbitrary duty cycle')
STUBS = ['gearpy.solver.np.arange (R model, only reached with symbolic dt)', 'gearpy.solver.float (identity on proxies)',
         'gearpy.units.unit_base.fabs -> ite', 'user load function = fresh symbolic value per call, arguments recorded',
         'user control rule (arbitrary duty) = fresh symbolic value per call']
ASSUMPTIONS = [
    'doubles are modelled as exact reals (L-state configurations use dyadic constants so that the library\'s concrete '
    'float arithmetic is exact)',
    'inertias, no-load speed, maximum torque > 0; 0 <= i0 < imax; efficiencies in (0,1]; dt > 0 (documented preconditions)',
    'the external load acts on the last element (as the property states)',
    'the load function and custom control rule are arbitrary functions: a fresh unconstrained value per call',
]
EXPLANATION = ('Symbolic execution of the unmodified gearpy Solver.run / Powertrain / relations code on float-subclass '
               'proxies carrying z3 Real terms; every comparison made by the library forks under solver control; the '
               'recorded time variables are terms over the inputs and the obligations are discharged by z3 per path.')
LEVEL_NOTE = ('Bounded: K steps, catalogue + seeded chains; doubles as reals; oracle ratios/efficiencies/inertia reduction '
              'written from the property statement and docstrings; trusts z3, the proxy arithmetic and the stubs listed in '
              'the evidence (validated on sampled paths against concrete runs of the same harness on the unpatched library).')
TECHNIQUE = 'symbolic execution of the real Python code (float-subclass proxies, decision-list re-execution) + z3 per path; concrete replay'
