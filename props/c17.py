"""C17  Every advertised time variable has exactly one sample per instant

Runs the shared simulation harness (props/sim.py) with this property's obligations."""
from props import sim

ID = 'C17'


import itertools


def _subsets(keys):
    for r in range(len(keys) + 1):
        for c in itertools.combinations(keys, r):
            yield c


VAL = {'module': 1.0, 'face_width': 8.0, 'elastic_modulus': 200.0, 'reference_diameter': 10.0}


def specs(tier, seed):
    S = []
    scheds = [(('run', 2),), (('run', 2), ('run', 2)), (('run', 2), ('reset',), ('reinit',), ('run', 2)),
              (('run_stop', 3, ('encoder', -1, 'greater_than', 'rad')),)]
    n = 0
    for topo, ia, ib in (('T1', 1, 2), ('T2', 2, 3)):
        for sa in _subsets(('module', 'face_width', 'elastic_modulus')):
            for sb in _subsets(('module', 'face_width', 'elastic_modulus')):
                opt = ((ia, tuple((k, VAL[k]) for k in sa)), (ib, tuple((k, VAL[k]) for k in sb)))
                sch = scheds[n % len(scheds)] if tier == 'quick' else None
                n += 1
                for sc in ([sch] if sch else scheds):
                    S.append(sim.spec(topo, schedule=_fix(sc, ib), opt=opt, tag=':opt%d' % n))
    for topo, iw, ih in (('T3', 1, 2), ('T4', 1, 2), ('T5', 2, 1)):
        for sw in _subsets(('reference_diameter',)):
            for sh in _subsets(('module', 'face_width')):
                opt = ((iw, tuple((k, VAL[k]) for k in sw)), (ih, tuple((k, VAL[k]) for k in sh)))
                for sc in scheds[:3] if tier == 'quick' else scheds:
                    n += 1
                    S.append(sim.spec(topo, schedule=_fix(sc, 2 if topo != 'T5' else 3), opt=opt, tag=':opt%d' % n))
    # boundary values of the motor data: no-load current exactly 0 A with the supply cut from the first instant (by a timer
    # rule / by the user), later, and never
    S.append(sim.spec('T12', schedule=(('run', 2), ('run', 2)), control=('const', ((0.0, 10.0, 0.0),)), tag=':i0_zero_cut_from_start'))
    S.append(sim.spec('T12', schedule=(('run', 3),), control=('fixed', 0.0), tag=':i0_zero_duty_zero'))
    S.append(sim.spec('T12', schedule=(('run', 3),), control=('const', ((0.2, 10.0, 0.0),)), tag=':i0_zero_cut_later'))
    S.append(sim.spec('T12', schedule=(('run', 2),), control=('arb', -1, 1), tag=':i0_zero_arbitrary_duty'))
    if tier == 'thorough':
        full = (('module', 1.0), ('face_width', 8.0), ('elastic_modulus', 200.0))
        S.append(sim.spec('T6', schedule=(('run', 3),), tag=':full',
                          opt=((2, (('reference_diameter', 10.0),)), (3, full[:2]), (4, full), (5, full), (6, full), (7, full))))
        S.append(sim.spec('T7', schedule=(('run', 3),), tag=':full',
                          opt=((1, (('reference_diameter', 10.0),)), (2, full[:2]), (3, full), (4, full))))
    return S


def _fix(sched, last_idx):
    """replace the placeholder element index -1 of a stop sensor by the index of the last element"""
    out = []
    for op in sched:
        if op[0] == 'run_stop':
            k, i, o, u = op[2]
            out.append((op[0], op[1], (k, last_idx if i == -1 else i, o, u)))
        else:
            out.append(op)
    return tuple(out)


def build(sp):
    return sim.build_spec(sp, ('C17',))


JOB_CAP = {'quick': 900, 'thorough': 2400}
REQUIRED_TRIGGERS = {'quick': ('tv.one_sample_per_instant', 'tv.no_missing_sample', 'tv.last_sample_is_current', 'tv.snapshot_succeeds', 'tv.export_succeeds')}
BOUNDS = {
    'quick': 'spur pair (T1) and helical pair (T2): every subset of {module, face width, elastic modulus} on both gears '
             '(64 each; modules equal when both present); worm->wheel (T3/T4) and wheel->worm (T5): worm with/without '
             'reference diameter x wheel with every subset of {module, face width} (8 each); motor with and without '
             'currents, and with a no-load current of exactly 0 A (T12) with the supply cut from the first instant, later, never and arbitrarily; schedules run(2), run(2)+run(2), run(2)+reset+rerun, early stop; K=2; magnitudes of the '
             'optional data concrete, initial state and loads symbolic; real snapshot() and export_time_variables() '
             'are called on the concrete replay of sampled paths',
    'thorough': 'quick + T6/T7 with data on every gear, K=3, all schedules on every configuration',
}
OUTSIDE = 'configurations whose run raises a documented ValueError (gear with a module but no mating; contact stress with a mate lacking data: C09)'
STUBS = sim.STUBS
ASSUMPTIONS = sim.ASSUMPTIONS
EXPLANATION = sim.EXPLANATION
MANIFEST = dict(
    level_text='Bounded symbolic execution of the real Solver.run over the exhaustive set of optional-data subsets of mated gears and schedules (run / continue / stop / reset): on every path every advertised time variable has exactly one non-missing sample per instant and the last sample is the current attribute; on sampled concrete replays the real snapshot() and export_time_variables() are executed and must not fail.',
    level_note=sim.LEVEL_NOTE,
    technique=sim.TECHNIQUE,
    design_ref='DESIGN.md section 5 C17',
)
