"""C16  A stop condition ends the run at the first instant it holds

Runs the shared simulation harness (props/sim.py) with this property's obligations."""
from props import sim

ID = 'C16'


OPS = ['greater_than', 'greater_than_or_equal_to', 'equal_to', 'less_than', 'less_than_or_equal_to']


def specs(tier, seed):
    import random
    rnd = random.Random(seed)
    S = []
    sensors = {'T1': [('encoder', 2, 'rad'), ('encoder', 0, 'rot'), ('tachometer', 1, 'rpm'), ('tachometer', 2, 'rad/s')],
               'T3': [('amperometer', 0, 'mA'), ('amperometer', 0, 'A'), ('encoder', 1, 'deg'), ('tachometer', 0, 'rad/s')],
               'T4': [('encoder', 2, 'rad'), ('tachometer', 0, 'rps'), ('amperometer', 0, 'A')]}
    if tier == 'thorough':
        sensors['T6'] = [('encoder', 7, 'arcmin'), ('tachometer', 3, 'deg/min'), ('amperometer', 0, 'uA')]
    for t, lst in sensors.items():
        for (kind, idx, unit) in lst:
            ops = OPS if tier == 'thorough' else [OPS[(idx + len(S)) % 5], OPS[(idx + len(S) + 2) % 5]]
            for op in ops:
                K = 4 if tier == 'thorough' else 3
                S.append(sim.spec(t, schedule=(('run_stop', K, (kind, idx, op, unit)),), tag=':%s%d:%s' % (kind, idx, op)))
        kind, idx, unit = lst[0]
        S.append(sim.spec(t, schedule=(('run', 2), ('run_stop', 2, (kind, idx, 'greater_than', unit))), tag=':cont'))
        # one StopCondition object reused after it has (possibly) fired: continuation, and reset + rerun
        sc = (kind, idx, 'greater_than' if kind != 'tachometer' else 'less_than', unit)
        S.append(sim.spec(t, schedule=(('run_stop', 2, sc), ('run_stop', 2, sc)), tag=':reuse_cont'))
        S.append(sim.spec(t, schedule=(('run_stop', 2, sc), ('reset',), ('reinit',), ('run_stop', 2, sc)), tag=':reuse_reset'))
    return S


def build(sp):
    return sim.build_spec(sp, ('C16',))


JOB_CAP = {'quick': 900, 'thorough': 2400}
REQUIRED_TRIGGERS = {'quick': ('stop.false_before_last', 'stop.true_at_early_end', 'stop.full_length_run', 'stop.nothing_after_last')}
BOUNDS = {
    'quick': 'T1/T3/T4 with configuration and dt concrete; threshold, initial state and every load value symbolic; '
             'sensors: encoder and tachometer on the motor, a middle element and the last element, amperometer; all '
             'five operators; threshold in a non-SI unit in half of the jobs; K=3 (fresh run) and 2+2 (stop during a continuation); '
             'the same StopCondition object reused in a continuation and after reset + rerun',
    'thorough': 'quick + K=4, every sensor x operator pair on T1,T3,T4,T6, every threshold unit once',
}
OUTSIDE = 'K>4; stop conditions combined with motor control beyond a fixed duty'
STUBS = sim.STUBS
ASSUMPTIONS = sim.ASSUMPTIONS
EXPLANATION = sim.EXPLANATION
MANIFEST = dict(
    level_text="Bounded symbolic execution of the real Solver.run with a StopCondition (threshold, initial state and loads symbolic): after the run the library's own operator is applied to every recorded sample of the sensed variable and z3-decided paths show the comparison false at every computed instant before the last, true at the last instant whenever the run ended early, and nothing recorded after it.",
    level_note=sim.LEVEL_NOTE,
    technique=sim.TECHNIQUE,
    design_ref='DESIGN.md section 5 C16',
)
