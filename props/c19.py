"""C19  Sign-constrained quantities and parameters can never be invalid.

One inductive step instead of random programs: from arbitrary VALID operands, every
operation (construct, + - * /, abs, neg, to, to in place) either raises or leaves
every live object (operands, possibly mutated, and the result) valid.  R mode for
all combinations; Float64 mode over all finite doubles (denormals included) for the
sign-constrained kinds."""
from __future__ import annotations

import operator
import random
from fractions import Fraction

import z3

from oracles import si
from symx.core import T, SR
from symx.harness import HarnessBase, Batch
from symx.ob import eq, holds, close, zabs, Ob

ID = 'C19'
CONSTRAINED = [k for k in si.KINDS if si.SIGN[k]]
NUMS = ['float', 'int']


def valid(kind, t):
    s = si.SIGN.get(kind)
    if s == 'pos':
        return t > 0
    if s == 'nonneg':
        return t >= 0
    return z3.BoolVal(True)


def _sym_valid(env, kind, name):
    s = si.SIGN.get(kind)
    if s == 'pos':
        return env.real(name, lo=0, lo_open=True)
    if s == 'nonneg':
        return env.real(name, lo=0)
    return env.real(name)


def _objs_state(objs):
    return [(type(o).__name__, o.value, o.unit) for o in objs]


class Step(HarnessBase):
    """one operation on valid operands; `what` selects it"""
    validate_max = 5
    max_paths = 200

    def __init__(self, what, kind, other=None, u1=None, u2=None, iv=None):
        self.what, self.kind, self.other, self.u1, self.u2, self.iv = what, kind, other, u1, u2, iv
        self.name = 'step:%s:%s%s:%s/%s' % (what, kind, ':' + other if other else '', u1, u2)

    def describe(self):
        return dict(operation=self.what, kind=self.kind, other=self.other, units=[self.u1, self.u2], int_value=self.iv)

    def finding_key(self, ob, values):
        return 'step:%s:%s:%s:%s' % (self.what, self.kind, self.other or '-', ob.family)

    def run(self, env):
        import gearpy.units as gu
        K = getattr(gu, self.kind)
        rec = dict(raised=None)
        live = []
        try:
            if self.what == 'construct':
                v = env.real('v')
                rec['v'] = v
                x = K(v, self.u1)
                live = [x]
            else:
                v = _sym_valid(env, self.kind, 'a')
                rec['v'] = v
                x = K(v, self.u1)
                live = [x]
                if self.what == 'abs':
                    live.append(abs(x))
                elif self.what == 'neg':
                    live.append(-x)
                elif self.what == 'to':
                    live.append(x.to(self.u2))
                elif self.what == 'to_inplace':
                    r = x.to(self.u2, inplace=True)
                    if r is not x:
                        live.append(r)
                else:
                    if self.other == 'float':
                        y = env.real('b')
                    elif self.other == 'int':
                        y = self.iv
                    else:
                        y = getattr(gu, self.other)(_sym_valid(env, self.other, 'b'), self.u2)
                        live.append(y)
                    opf = dict(add=operator.add, sub=operator.sub, mul=operator.mul, div=operator.truediv,
                               rmul=lambda a, b: b * a)[self.what]
                    r = opf(x, y)
                    if hasattr(r, 'unit'):
                        live.append(r)
                    elif r is None:
                        rec['returned_none'] = True
        except (ValueError, TypeError, ZeroDivisionError) as e:
            rec['raised'] = type(e).__name__
        rec['live'] = _objs_state(live)
        return rec

    def obligations(self, out):
        if not out.ok:
            return [holds('inv.no_other_exception', False, info=repr(out.exc))]
        rec = out.value
        obs = []
        for i, (kind, val, unit) in enumerate(rec['live']):
            obs.append(holds('inv.live_object_valid[%d:%s]' % (i, kind), valid(kind, T(val)),
                             info='%s %s after %s' % (kind, unit, self.what)))
        if self.what == 'construct':
            v = T(rec['v'])
            if rec['raised'] is None:
                obs.append(holds('inv.constructor_accepts_only_valid', valid(self.kind, v)))
            elif rec['raised'] == 'ValueError':
                obs.append(holds('inv.constructor_rejects_only_invalid', z3.Not(valid(self.kind, v))))
            else:
                obs.append(holds('inv.constructor_error_class', False, info=rec['raised']))
        if rec.get('returned_none'):
            obs.append(holds('inv.operation_returns_or_raises', False, info='operation returned None'))
        return obs


class Component(HarnessBase):
    """component constructors: constructed => parameters physical"""
    validate_max = 10
    max_paths = 300

    def __init__(self, comp, variant=0):
        self.comp, self.variant = comp, variant
        self.name = 'component:%s:%d' % (comp, variant)

    def describe(self):
        return dict(component=self.comp, variant=self.variant)

    def finding_key(self, ob, values):
        return 'component:%s:%s' % (self.comp, ob.family)

    def run(self, env):
        import gearpy.units as gu
        import gearpy.mechanical_objects as mo
        J = gu.InertiaMoment(1, 'kgm^2')
        rec = dict(raised=None, P={})
        P = rec['P']
        try:
            if self.comp == 'motor':
                P['w0'], P['Tmax'], P['i0'], P['imax'] = (env.real('w0'), env.real('Tmax'), env.real('i0'), env.real('imax'))
                units = [('rad/s', 'Nm', 'A', 'A'), ('rpm', 'mNm', 'mA', 'A'), ('deg/s', 'kgfcm', 'A', 'uA')][self.variant % 3]
                f = [float(si.SI[k][u]) for k, u in zip(('AngularSpeed', 'Torque', 'Current', 'Current'), units)]
                m = mo.DCMotor(name='m', inertia_moment=J, no_load_speed=gu.AngularSpeed(P['w0'] / f[0], units[0]),
                               maximum_torque=gu.Torque(P['Tmax'] / f[1], units[1]),
                               no_load_electric_current=gu.Current(P['i0'] / f[2], units[2]),
                               maximum_electric_current=gu.Current(P['imax'] / f[3], units[3]))
                P['pwm'] = env.real('pwm')
                rec['constructed'] = True
                try:
                    m.pwm = P['pwm']
                    rec['pwm_set'] = True
                except ValueError:
                    rec['pwm_set'] = False
            elif self.comp == 'motor_opt':
                # option subsets: only one of the two currents is given (variant even: maximum only, odd: no-load only)
                P['i'] = env.real('i')
                u = ['A', 'mA', 'uA', 'A'][(self.variant // 2) % 4]
                fi = float(si.SI['Current'][u])
                kw = ({'maximum_electric_current': gu.Current(P['i'] / fi, u)} if self.variant % 2 == 0
                      else {'no_load_electric_current': gu.Current(P['i'] / fi, u)})
                mo.DCMotor(name='m', inertia_moment=J, no_load_speed=gu.AngularSpeed(100, 'rad/s'),
                           maximum_torque=gu.Torque(1, 'Nm'), **kw)
                rec['constructed'] = True
            elif self.comp == 'gear':
                P['E'] = env.real('E')
                n = [9, 10, 11, 37][self.variant % 4]
                P['n'] = n
                mo.SpurGear(name='g', n_teeth=n, inertia_moment=J, module=gu.Length(1, 'mm'), face_width=gu.Length(5, 'mm'),
                            elastic_modulus=gu.Stress(P['E'], ['Pa', 'GPa', 'MPa', 'kPa'][self.variant % 4]))
                rec['constructed'] = True
            elif self.comp == 'helical':
                P['helix'] = env.real('helix', lo=0)
                u = ['deg', 'rad', 'rot', 'arcmin'][self.variant % 4]
                P['helix_unit'] = u
                mo.HelicalGear(name='g', n_teeth=20, inertia_moment=J, helix_angle=gu.Angle(P['helix'], u))
                rec['constructed'] = True
            elif self.comp in ('worm', 'wheel'):
                P['helix'] = env.real('helix', lo=0)
                pa = [14.5, 20.0, 25.0, 30.0][self.variant % 4]
                P['pa'] = pa
                if self.comp == 'worm':
                    mo.WormGear(name='g', n_starts=[0, 1, 2, 1][self.variant % 4], inertia_moment=J,
                                helix_angle=gu.Angle(P['helix'], 'deg'), pressure_angle=gu.Angle(pa, 'deg'))
                    P['starts'] = [0, 1, 2, 1][self.variant % 4]
                else:
                    mo.WormWheel(name='g', n_teeth=[9, 10, 30, 12][self.variant % 4], inertia_moment=J,
                                 helix_angle=gu.Angle(P['helix'], 'deg'), pressure_angle=gu.Angle(pa, 'deg'))
                    P['n'] = [9, 10, 30, 12][self.variant % 4]
                rec['constructed'] = True
        except (ValueError, TypeError) as e:
            rec['raised'] = type(e).__name__
            rec['constructed'] = False
        return rec

    def obligations(self, out):
        if not out.ok:
            return [holds('comp.no_other_exception', False, info=repr(out.exc))]
        rec = out.value
        P = rec['P']
        obs = []
        if not rec['constructed']:
            return [holds('comp.rejected', True)]
        band = z3.RealVal(Fraction(1, 10**9))
        if self.comp == 'motor':
            w0, Tm, i0, im = T(P['w0']), T(P['Tmax']), T(P['i0']), T(P['imax'])
            obs.append(holds('comp.motor_parameters_physical', z3.And(w0 > 0, Tm > 0, im > 0, i0 >= 0, i0 < im)))
            if rec.get('pwm_set'):
                obs.append(holds('comp.duty_cycle_in_range', z3.And(T(P['pwm']) >= -1, T(P['pwm']) <= 1)))
        elif self.comp == 'motor_opt':
            obs.append(holds('comp.motor_single_current_physical', T(P['i']) > 0 if self.variant % 2 == 0 else T(P['i']) >= 0))
        elif self.comp == 'gear':
            obs.append(holds('comp.gear_parameters_physical', z3.And(T(P['E']) > 0, P['n'] >= 10)))
        elif self.comp == 'helical':
            f = z3.RealVal(si.SI['Angle'][P['helix_unit']] / si.SI['Angle']['deg'])
            obs.append(holds('comp.helix_below_90', T(P['helix']) * f < 90 + band))
        else:
            lim = {14.5: 16, 20.0: 25, 25.0: 35, 30.0: 45}[P['pa']]
            obs.append(holds('comp.worm_helix_within_limit', T(P['helix']) <= lim + band))
            if 'starts' in P:
                obs.append(holds('comp.worm_starts_positive', P['starts'] >= 1))
            if 'n' in P:
                obs.append(holds('comp.teeth_at_least_minimum', P['n'] >= 10))
        return obs


# ----------------------------------------------------------------------------
def specs(tier, seed):
    rnd = random.Random(seed)
    cells = []
    for kind in si.KINDS:
        us = si.units_of(kind)
        for u in (us if tier == 'thorough' else [us[0], us[-1]]):
            cells.append(('construct', kind, None, u, None, None))
        pairs = [(a, b) for a in us for b in us]
        sel = pairs if (tier == 'thorough' or kind in CONSTRAINED) else rnd.sample(pairs, 3)
        for a, b in sel:
            cells.append(('to', kind, None, a, b, None))
            cells.append(('to_inplace', kind, None, a, b, None))
        cells.append(('abs', kind, None, us[0], None, None))
        cells.append(('neg', kind, None, us[-1], None, None))
    for kind in CONSTRAINED:
        us = si.units_of(kind)
        for other in si.KINDS + NUMS:
            ous = si.units_of(other) if other not in NUMS else [None]
            for op in ('add', 'sub', 'mul', 'div', 'rmul'):
                ivs = [0, 1, -2] if other == 'int' else [None]
                for iv in ivs:
                    cells.append((op, kind, other, rnd.choice(us), rnd.choice(ous), iv))
    out = []
    n = 60
    for i in range(0, len(cells), n):
        out.append(('cells', i // n, tuple(cells[i:i + n])))
    for comp in ('motor', 'motor_opt', 'gear', 'helical', 'worm', 'wheel'):
        out.append(('comp', comp))
    for part in range(10):
        out.append(('fp', tier, part, 10))
    return out


def build(sp):
    if sp[0] == 'fp':
        from props import c19fp
        return c19fp.FPInvariant(sp[1], sp[2], sp[3])
    if sp[0] == 'comp':
        return Batch('comp:' + sp[1], [Component(sp[1], v) for v in range(4)])
    _, i, cells = sp
    return Batch('cells:%d' % i, [Step(*c) for c in cells])


JOB_CAP = {'quick': 900, 'thorough': 3000}
REQUIRED_TRIGGERS = {'quick': ('inv.live_object_valid', 'inv.constructor_accepts_only_valid',
                               'inv.constructor_rejects_only_invalid', 'comp.motor_parameters_physical',
                               'comp.duty_cycle_in_range', 'comp.gear_parameters_physical', 'comp.helix_below_90',
                               'comp.worm_helix_within_limit')}
BOUNDS = {
    'quick': 'one operation from arbitrary valid operands (inductive step): construct (any real), abs, neg, to and to-in-place '
             '(every unit pair of the five sign-constrained kinds, 3 seeded pairs of the others), + - * / and reflected * of '
             'each sign-constrained kind with all 13 kinds, float (symbolic) and int {0,1,-2} (one seeded unit pair each); '
             'component constructors (motor in 3 unit assignments, spur/helical/worm/wheel) with symbolic parameters; Float64 '
             'mode: construct / to / to-in-place / * / / of the four strictly-positive kinds over ALL finite doubles',
    'thorough': 'every unit of every kind for construct and every unit pair for to / to-in-place',
}
OUTSIDE = ('programs are covered by induction on one step from an arbitrary valid state, not by enumeration; objects mutated by '
           'anything other than the public operations; non-finite operands')
STUBS = ['gearpy.units.unit_base.fabs -> ite / fpAbs']
ASSUMPTIONS = ['invariant: every live Length/Surface/InertiaMoment/TimeInterval > 0, Angle >= 0',
               'R mode: doubles as reals; Float64 mode: bit-precise, all finite doubles, 300 s per query']
EXPLANATION = ('Symbolic execution of the real unit classes: the invariant is assumed on the operands and proved on every '
               'live object after one operation, on every path (including the paths on which the operation raises).')
MANIFEST = dict(
    level_text='Inductive step by symbolic execution of the real quantity classes: from arbitrary valid operands every operation '
               '(construct, + - * /, abs, neg, to, to in place) is run on proxies and z3 proves on every path that all live '
               'objects - both operands, possibly mutated, and the result - satisfy their sign constraint, or that an exception '
               'was raised with the operands still valid; constructors accept exactly the valid magnitudes; component '
               'constructors accept only physical parameters. The same operations are decided bit-precisely over all finite '
               'doubles (denormals included) for the strictly positive kinds.',
    level_note='One step from an arbitrary valid state covers histories of any length (the invariant is the sign constraint itself); '
               'unit pairs exhaustive for the constrained kinds; FP queries capped at 300 s each.',
    technique='symbolic execution of the real Python code + z3 (LRA; QF_FP over all finite doubles); concrete replay',
    design_ref='DESIGN.md section 5 C19',
)
