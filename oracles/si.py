"""Independent SI table: the SI value of one unit, written from the SI definitions
(not read from gearpy).  Exact rationals times a power of pi; pi is taken as the
exact value of the double math.pi (the checks use a relative tolerance of 1e-12
or coarser where a factor of pi is involved, far above the double's error 4e-17).
"""
from fractions import Fraction as F
import math

PI = F(math.pi)
G = F(980665, 100000)           # standard gravity, m/s^2 (kgf definition)

DEG = PI / 180

SI = {
    'AngularPosition': {
        'rad': F(1), 'deg': DEG, 'arcmin': DEG / 60, 'arcsec': DEG / 3600, 'rot': 2 * PI},
    'AngularSpeed': {
        'rad/s': F(1), 'rad/min': F(1, 60), 'rad/h': F(1, 3600),
        'deg/s': DEG, 'deg/min': DEG / 60, 'deg/h': DEG / 3600,
        'rps': 2 * PI, 'rpm': 2 * PI / 60, 'rph': 2 * PI / 3600},
    'AngularAcceleration': {
        'rad/s^2': F(1), 'deg/s^2': DEG, 'rot/s^2': 2 * PI},
    'InertiaMoment': {
        'kgm^2': F(1), 'kgdm^2': F(1, 10**2), 'kgcm^2': F(1, 10**4), 'kgmm^2': F(1, 10**6),
        'gm^2': F(1, 10**3), 'gdm^2': F(1, 10**5), 'gcm^2': F(1, 10**7), 'gmm^2': F(1, 10**9)},
    'Torque': {
        'Nm': F(1), 'mNm': F(1, 10**3), 'mNdm': F(1, 10**4), 'mNcm': F(1, 10**5), 'mNmm': F(1, 10**6),
        'kNm': F(10**3), 'kNdm': F(10**2), 'kNcm': F(10), 'kNmm': F(1),
        'kgfm': G, 'kgfdm': G / 10, 'kgfcm': G / 100, 'kgfmm': G / 1000,
        'gfm': G / 1000, 'gfdm': G / 10**4, 'gfcm': G / 10**5, 'gfmm': G / 10**6},
    'Time': {'sec': F(1), 'min': F(60), 'hour': F(3600), 'ms': F(1, 1000)},
    'Length': {'m': F(1), 'dm': F(1, 10), 'cm': F(1, 100), 'mm': F(1, 1000)},
    'Surface': {'m^2': F(1), 'dm^2': F(1, 10**2), 'cm^2': F(1, 10**4), 'mm^2': F(1, 10**6)},
    'Force': {'N': F(1), 'mN': F(1, 1000), 'kN': F(1000), 'kgf': G, 'gf': G / 1000},
    'Stress': {'Pa': F(1), 'kPa': F(10**3), 'MPa': F(10**6), 'GPa': F(10**9)},
    'Current': {'A': F(1), 'mA': F(1, 10**3), 'uA': F(1, 10**6)},
}
SI['Angle'] = SI['AngularPosition']
SI['TimeInterval'] = SI['Time']

KINDS = ['AngularPosition', 'Angle', 'AngularSpeed', 'AngularAcceleration', 'InertiaMoment', 'Torque',
         'Time', 'TimeInterval', 'Length', 'Surface', 'Force', 'Stress', 'Current']

# sign constraint of each kind: 'pos' (>0), 'nonneg' (>=0), None
SIGN = {k: None for k in KINDS}
SIGN.update(Length='pos', Surface='pos', InertiaMoment='pos', TimeInterval='pos', Angle='nonneg')

# base kind for same-kind arithmetic (sub-kinds)
PARENT = {'Angle': 'AngularPosition', 'TimeInterval': 'Time'}

# dimension vectors (angle, time, mass, length, current) -- angle kept as a base
# dimension because gearpy distinguishes rad-based kinds
DIM = {
    'AngularPosition': (1, 0, 0, 0, 0), 'Angle': (1, 0, 0, 0, 0),
    'AngularSpeed': (1, -1, 0, 0, 0), 'AngularAcceleration': (1, -2, 0, 0, 0),
    'InertiaMoment': (0, 0, 1, 2, 0), 'Torque': (0, -2, 1, 2, 0),
    'Time': (0, 1, 0, 0, 0), 'TimeInterval': (0, 1, 0, 0, 0),
    'Length': (0, 0, 0, 1, 0), 'Surface': (0, 0, 0, 2, 0),
    'Force': (0, -2, 1, 1, 0), 'Stress': (0, -2, 1, -1, 0), 'Current': (0, 0, 0, 0, 1),
}


def kind_of(obj):
    return type(obj).__name__


def units_of(kind):
    return list(SI[kind].keys())


def factor(kind, unit):
    return SI[kind][unit]


def si_val(obj):
    """SI magnitude of a gearpy quantity: a proxy if its value is one, else a double"""
    from symx.core import SR
    import z3
    v = obj.value
    f = SI[kind_of(obj)][obj.unit]
    if isinstance(v, SR):
        return SR(v.t * z3.RealVal(f))
    return float(F(v) * f)


def si_term(obj):
    """SI magnitude of a gearpy quantity as a z3 term (value may be a proxy)"""
    from symx.core import T
    import z3
    return T(obj.value) * z3.RealVal(SI[kind_of(obj)][obj.unit])
