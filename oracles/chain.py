"""Topology catalogue, model builder (real gearpy objects, symbolic or concrete
magnitudes) and the independent chain oracle (ratios, efficiencies, inertia
reduction, motor law) written from the property statements and docstrings."""
from __future__ import annotations

import math
import random
from fractions import Fraction

import z3

from symx.core import T, SR

# ----------------------------------------------------------------------------
# topology = dict(name, motor=dict(currents=bool), elements=[(kind, params)], links=[link])
# element kinds: flywheel | spur | helical | worm | wheel
# links (between element i-1 and i; element 0 is the motor): ('joint',) | ('mate', eta) | ('worm', friction)
# Default magnitudes are concrete SI-ish numbers used by L-state; L-full makes them symbolic.
# ----------------------------------------------------------------------------

def dy(x, bits=8):
    """nearest dyadic rational with `bits` significant bits: concrete float arithmetic on such
    configuration values is exact, so L-state obligations are exact identities for z3"""
    if x == 0:
        return 0.0
    m, e = math.frexp(x)
    return math.ldexp(round(m * (1 << bits)) / (1 << bits), e)


def E(kind, **p):
    if 'J' in p:
        p['J'] = dy(p['J'])
    return (kind, p)


MOTOR_A = dict(currents=False, J=(dy(3e-7), 'kgm^2'), w0=(1500.0, 'rad/s'), Tmax=(dy(0.01), 'Nm'))
MOTOR_B = dict(currents=True, J=(dy(5e-7), 'kgm^2'), w0=(1000.0, 'rad/s'), Tmax=(dy(0.02), 'Nm'), i0=(0.25, 'A'), imax=(2.0, 'A'))

# a motor whose no-load current is exactly zero (boundary value the constructor allows): no dead zone
MOTOR_C = dict(currents=True, J=(dy(5e-7), 'kgm^2'), w0=(1000.0, 'rad/s'), Tmax=(dy(0.02), 'Nm'), i0=(0.0, 'A'), imax=(2.0, 'A'))

TOPOLOGIES = {
    'T1': dict(motor=MOTOR_A, elements=[E('spur', n=10, J=1e-6), E('spur', n=40, J=4e-5)],
               links=[('joint',), ('mate', 0.9)]),
    'T2': dict(motor=MOTOR_A, elements=[E('flywheel', J=2e-5), E('helical', n=12, J=1e-6, helix=20.0),
                                        E('helical', n=30, J=2e-5, helix=20.0)],
               links=[('joint',), ('joint',), ('mate', 0.85)]),
    'T3': dict(motor=MOTOR_B, elements=[E('worm', starts=2, J=1e-6, helix=20.0, pa=20.0),
                                        E('wheel', n=30, J=5e-5, helix=20.0, pa=20.0)],
               links=[('joint',), ('worm', 0.1)]),
    'T4': dict(motor=MOTOR_B, elements=[E('worm', starts=1, J=1e-6, helix=10.0, pa=20.0),
                                        E('wheel', n=50, J=5e-5, helix=10.0, pa=20.0)],
               links=[('joint',), ('worm', 0.4)]),
    'T5': dict(motor=MOTOR_A, elements=[E('wheel', n=20, J=2e-6, helix=40.0, pa=30.0),
                                        E('worm', starts=4, J=1e-6, helix=40.0, pa=30.0),
                                        E('spur', n=15, J=3e-6)],
               links=[('joint',), ('worm', 0.1), ('joint',)]),
    'T6': dict(motor=MOTOR_B, elements=[E('flywheel', J=1e-5), E('worm', starts=1, J=1e-6, helix=10.0, pa=20.0),
                                        E('wheel', n=40, J=4e-5, helix=10.0, pa=20.0),
                                        E('helical', n=10, J=1e-6, helix=15.0), E('helical', n=35, J=3e-5, helix=15.0),
                                        E('spur', n=12, J=2e-6), E('spur', n=48, J=8e-5)],
               links=[('joint',), ('joint',), ('worm', 0.05), ('joint',), ('mate', 0.9), ('joint',), ('mate', 0.95)]),
    # an idler gear: slave of one mating and master of the next, no fixed joint in between
    'T10': dict(motor=MOTOR_A, elements=[E('spur', n=10, J=1e-6), E('spur', n=20, J=2e-6), E('spur', n=50, J=4e-5)],
                links=[('joint',), ('mate', 0.9), ('mate', 0.8)]),
    # two worm stages: the self-locking one first (T8) / last (T9)
    'T8': dict(motor=MOTOR_B, elements=[E('worm', starts=1, J=1e-6, helix=10.0, pa=20.0),
                                        E('wheel', n=20, J=2e-5, helix=10.0, pa=20.0),
                                        E('worm', starts=2, J=1e-6, helix=20.0, pa=20.0),
                                        E('wheel', n=16, J=4e-5, helix=20.0, pa=20.0)],
               links=[('joint',), ('worm', 0.4), ('joint',), ('worm', 0.05)]),
    'T9': dict(motor=MOTOR_B, elements=[E('worm', starts=2, J=1e-6, helix=20.0, pa=20.0),
                                        E('wheel', n=16, J=2e-5, helix=20.0, pa=20.0),
                                        E('worm', starts=1, J=1e-6, helix=10.0, pa=20.0),
                                        E('wheel', n=20, J=4e-5, helix=10.0, pa=20.0)],
               links=[('joint',), ('worm', 0.05), ('joint',), ('worm', 0.4)]),
    # motor with no-load current 0 A driving a spur pair
    'T12': dict(motor=MOTOR_C, elements=[E('spur', n=10, J=1e-6), E('spur', n=40, J=4e-5)],
                links=[('joint',), ('mate', 0.9)]),
    # self-locking train driven by a motor WITHOUT current data
    'T11': dict(motor=MOTOR_A, elements=[E('worm', starts=1, J=1e-6, helix=10.0, pa=20.0),
                                         E('wheel', n=50, J=5e-5, helix=10.0, pa=20.0)],
                links=[('joint',), ('worm', 0.4)]),
    # self-locking train with gears after the wheel (C13)
    'T7': dict(motor=MOTOR_B, elements=[E('worm', starts=1, J=1e-6, helix=5.0, pa=14.5),
                                        E('wheel', n=30, J=5e-5, helix=5.0, pa=14.5),
                                        E('spur', n=10, J=1e-6), E('spur', n=20, J=1e-5)],
               links=[('joint',), ('worm', 0.3), ('joint',), ('mate', 0.9)]),
}


def seeded_topology(rnd, length):
    """random chain of `length` elements (incl. motor) under the mating-compatibility grammar"""
    motor = dict(rnd.choice([MOTOR_A, MOTOR_B]))
    els, links = [], []
    prev = 'motor'
    while len(els) + 1 < length:
        remaining = length - 1 - len(els)
        opts = ['flywheel', 'spur_pair', 'helical_pair', 'worm_pair', 'spur', 'helical']
        if remaining < 2:
            opts = ['flywheel', 'spur', 'helical']
        c = rnd.choice(opts)
        J = lambda: dy(10 ** rnd.uniform(-7, -4))  # noqa
        if c == 'flywheel':
            els.append(E('flywheel', J=J())); links.append(('joint',))
        elif c == 'spur':
            els.append(E('spur', n=rnd.randint(10, 60), J=J())); links.append(('joint',))
        elif c == 'helical':
            els.append(E('helical', n=rnd.randint(10, 60), J=J(), helix=float(rnd.choice([0, 10, 20, 35]))))
            links.append(('joint',))
        elif c == 'spur_pair':
            els.append(E('spur', n=rnd.randint(10, 30), J=J())); links.append(('joint',))
            els.append(E('spur', n=rnd.randint(10, 80), J=J()))
            links.append(('mate', rnd.choice([1, 0.95, 0.9, 0.7, 0.5])))
            if remaining >= 3 and rnd.random() < 0.35:
                # the driven gear is an idler: it drives a third gear directly
                els.append(E('spur', n=rnd.randint(10, 80), J=J()))
                links.append(('mate', rnd.choice([1, 0.95, 0.9, 0.7])))
        elif c == 'helical_pair':
            hx = float(rnd.choice([0, 10, 20, 35]))
            els.append(E('helical', n=rnd.randint(10, 30), J=J(), helix=hx)); links.append(('joint',))
            els.append(E('helical', n=rnd.randint(10, 80), J=J(), helix=hx))
            links.append(('mate', rnd.choice([1, 0.95, 0.9, 0.7])))
        elif c == 'worm_pair':
            pa = rnd.choice([14.5, 20.0, 25.0, 30.0])
            mx = {14.5: 16, 20.0: 25, 25.0: 35, 30.0: 45}[pa]
            hx = float(rnd.choice([h for h in (5, 10, 15, 20, 30, 40) if h <= mx]))
            thr = math.cos(math.radians(pa)) * math.tan(math.radians(hx))
            if rnd.random() < 0.3 and thr > 0.3:
                # wheel drives worm: efficiency needs f < cos(a)tan(b) (and tan(b)cos(a) > f)
                f = float('%.2g' % (thr * rnd.uniform(0.1, 0.5)))
                els.append(E('wheel', n=rnd.randint(10, 40), J=J(), helix=hx, pa=pa)); links.append(('joint',))
                els.append(E('worm', starts=rnd.randint(1, 4), J=J(), helix=hx, pa=pa)); links.append(('worm', f))
            else:
                f = float('%.2g' % (thr * rnd.uniform(0.1, 0.9)))   # not self-locking
                els.append(E('worm', starts=rnd.randint(1, 4), J=J(), helix=hx, pa=pa)); links.append(('joint',))
                els.append(E('wheel', n=rnd.randint(10, 60), J=J(), helix=hx, pa=pa)); links.append(('worm', f))
    # the load must sit on a GearBase: make sure the last element is a gear
    if els[-1][0] in ('flywheel', 'worm'):
        els.append(E('spur', n=rnd.randint(10, 40), J=2e-6)); links.append(('joint',))
    return dict(motor=motor, elements=els, links=links)


def get_topology(name, seed=0):
    if name in TOPOLOGIES:
        t = dict(TOPOLOGIES[name])
        t['name'] = name
        return t
    if name.startswith('W:'):
        _, pa, hx, f = name.split(':')
        pa, hx, f = float(pa), float(hx), float(f)
        return dict(name=name, motor=MOTOR_B,
                    elements=[E('worm', starts=1, J=1e-6, helix=hx, pa=pa), E('wheel', n=30, J=5e-5, helix=hx, pa=pa)],
                    links=[('joint',), ('worm', f)])
    if name.startswith('S'):
        # 'S<len>_<idx>' seeded
        ln, idx = name[1:].split('_')
        rnd = random.Random('%s-%s-%s' % (seed, ln, idx))
        t = seeded_topology(rnd, int(ln))
        t['name'] = name
        return t
    raise KeyError(name)


# ----------------------------------------------------------------------------
class Model:
    """the built real objects + the oracle's view of the same chain"""
    pass


def _val(env, full, name, default, lo=None, lo_open=False, hi=None, hi_open=False):
    if full:
        return env.real(name, lo=lo, lo_open=lo_open, hi=hi, hi_open=hi_open)
    return default


def build(env, topo, full=False, units=None, opt=None):
    """Build the chain with real gearpy objects.
    full=True: every continuous parameter is a solver variable (L-full).
    units: dict overriding the unit in which an input is *expressed* (physical value unchanged):
           {'J': 'gcm^2', 'w0': 'rpm', 'Tmax': 'mNm', 'i': 'mA'}
    opt: dict el_index -> extra constructor data (module, face_width, elastic_modulus, ref_diameter) for stress runs
    """
    import gearpy.mechanical_objects as mo
    import gearpy.units as gu
    from gearpy.utils import add_fixed_joint, add_gear_mating, add_worm_gear_mating
    from oracles import si
    units = units or {}
    opt = opt or {}
    M = Model()
    M.topo = topo
    mt = topo['motor']

    def q(kind, v_si, unit_si, key):
        """quantity with SI magnitude v_si expressed in units[key] (or the SI unit)"""
        u = units.get(key, unit_si)
        f_si = si.SI[kind][unit_si]
        f_u = si.SI[kind][u]
        if u == unit_si:
            val = v_si
        elif isinstance(v_si, SR):
            val = v_si * float(f_si / f_u)
        else:
            val = float(Fraction(v_si) * f_si / f_u)
        return getattr(gu, kind)(val, u)

    J0 = _val(env, full, 'J0', mt['J'][0], lo=0, lo_open=True)
    w0 = _val(env, full, 'w0', mt['w0'][0], lo=0, lo_open=True)
    Tm = _val(env, full, 'Tmax', mt['Tmax'][0], lo=0, lo_open=True)
    kw = dict(name='motor', inertia_moment=q('InertiaMoment', J0, 'kgm^2', 'J'),
              no_load_speed=q('AngularSpeed', w0, 'rad/s', 'w0'), maximum_torque=q('Torque', Tm, 'Nm', 'Tmax'))
    i0 = imax = None
    if mt.get('currents'):
        i0 = _val(env, full, 'i0', mt['i0'][0], lo=0)
        imax = _val(env, full, 'imax', mt['imax'][0], lo=0, lo_open=True)
        if full:
            env.assume(T(i0) < T(imax))
        kw.update(no_load_electric_current=q('Current', i0, 'A', 'i0u' if 'i0u' in units else 'i'),
                  maximum_electric_current=q('Current', imax, 'A', 'imaxu' if 'imaxu' in units else 'i'))
    motor = mo.DCMotor(**kw)
    objs = [motor]
    Js = [J0]
    for idx, (kind, p) in enumerate(topo['elements'], start=1):
        J = _val(env, full, 'J%d' % idx, p['J'], lo=0, lo_open=True)
        Js.append(J)
        name = 'e%d_%s' % (idx, kind)
        inertia = q('InertiaMoment', J, 'kgm^2', 'J')
        o = opt.get(idx, {})
        if kind == 'flywheel':
            ob = mo.Flywheel(name=name, inertia_moment=inertia)
        elif kind == 'spur':
            ob = mo.SpurGear(name=name, n_teeth=p['n'], inertia_moment=inertia, **o)
        elif kind == 'helical':
            ob = mo.HelicalGear(name=name, n_teeth=p['n'], inertia_moment=inertia,
                                helix_angle=gu.Angle(p['helix'], 'deg'), **o)
        elif kind == 'worm':
            ob = mo.WormGear(name=name, n_starts=p['starts'], inertia_moment=inertia,
                             helix_angle=gu.Angle(p['helix'], 'deg'), pressure_angle=gu.Angle(p['pa'], 'deg'), **o)
        elif kind == 'wheel':
            ob = mo.WormWheel(name=name, n_teeth=p['n'], inertia_moment=inertia,
                              helix_angle=gu.Angle(p['helix'], 'deg'), pressure_angle=gu.Angle(p['pa'], 'deg'), **o)
        else:
            raise KeyError(kind)
        objs.append(ob)
    # relations + oracle
    rho = [None]
    eta = [None]
    locking = False
    kinds = ['motor'] + [k for k, _ in topo['elements']]
    pars = [None] + [p for _, p in topo['elements']]
    for i, link in enumerate(topo['links'], start=1):
        a, b = objs[i - 1], objs[i]
        if link[0] == 'joint':
            add_fixed_joint(master=a, slave=b)
            rho.append(1)
            eta.append(1)
        elif link[0] == 'mate':
            e = _val(env, full, 'eta%d' % i, link[1], lo=0, lo_open=True, hi=1)
            add_gear_mating(master=a, slave=b, efficiency=e)
            rho.append(Fraction(pars[i]['n'], pars[i - 1]['n']))
            eta.append(e)
        elif link[0] == 'worm':
            f = link[1]
            add_worm_gear_mating(master=a, slave=b, friction_coefficient=f)
            if kinds[i - 1] == 'worm':
                wp = pars[i - 1]
                rho.append(Fraction(pars[i]['n'], wp['starts']))
                ca, tb = math.cos(math.radians(wp['pa'])), math.tan(math.radians(wp['helix']))
                eta.append((ca - f * tb) / (ca + f / tb))
            else:
                wp = pars[i]
                rho.append(Fraction(wp['starts'], pars[i - 1]['n']))
                ca, tb = math.cos(math.radians(wp['pa'])), math.tan(math.radians(wp['helix']))
                eta.append((ca - f / tb) / (ca + f * tb))
            if f > ca * tb:
                locking = True
    M.objs = objs
    M.motor = motor
    M.last = objs[-1]
    M.kinds = kinds
    M.rho = rho
    M.eta = eta
    M.J = Js
    M.w0, M.Tmax, M.i0, M.imax = w0, Tm, i0, imax
    M.locking = locking
    return M


# ----------------------------------------------------------------------------
# oracle pieces (z3 terms)
# ----------------------------------------------------------------------------
def j_equivalent(M):
    """documented reduction: start from the motor inertia and, moving downstream, multiply the running
    total by each element's gear ratio and add that element's inertia"""
    J = T(M.J[0])
    for i in range(1, len(M.J)):
        J = J * T(M.rho[i]) + T(M.J[i])
    return J


def motor_torque_law(w, D, w0, Tmax, i0=None, imax=None):
    """C08 statement as a z3 term: Tmax(D)*(1 - w/(D*w0)), Tmax(D)=Tmax*(D*imax-i0)/(imax-i0) (mirrored for D<0),
    0 whenever |D| <= i0/imax; Tmax*(1-w/w0) without current data"""
    w, w0, Tmax = T(w), T(w0), T(Tmax)
    if i0 is None or imax is None:
        return Tmax * (1 - w / w0)
    D, i0, imax = T(D), T(i0), T(imax)
    absD = z3.If(D >= 0, D, -D)
    pos = Tmax * (D * imax - i0) / (imax - i0) * (1 - w / (D * w0))
    neg = Tmax * (D * imax + i0) / (imax - i0) * (1 - w / (D * w0))
    return z3.If(absD * imax <= i0, z3.RealVal(0), z3.If(D > 0, pos, neg))


def motor_current_law(torque, D, Tmax, i0, imax):
    """(D*imax - i0)*T/Tmax(D) + i0 outside the dead zone (mirrored for D<0), D*imax inside it"""
    tq, D, Tmax, i0, imax = T(torque), T(D), T(Tmax), T(i0), T(imax)
    absD = z3.If(D >= 0, D, -D)
    tmax_pos = Tmax * (D * imax - i0) / (imax - i0)
    tmax_neg = Tmax * (D * imax + i0) / (imax - i0)
    pos = (D * imax - i0) * tq / tmax_pos + i0
    neg = (D * imax + i0) * tq / tmax_neg - i0
    return z3.If(absD * imax <= i0, D * imax, z3.If(D > 0, pos, neg))
