"""symx.fp -- bit-precise IEEE-754 double mode.

`SF` is a float subclass (payload NaN) carrying a z3 Float64 term; operations are
fpAdd/fpSub/fpMul/fpDiv with round-nearest-even exactly as CPython does them.
Forks are taken both ways without asking the solver (lazy); each completed path
gets one feasibility query.  Finite-operand simplifications (x*0 -> 0, x+0 -> x,
x*1 -> x, x/1 -> x, 0/x -> 0) keep concrete what is concrete; finiteness of every
symbol is an explicit assumption of every query (the sign of a zero is the only
thing those rules lose).
"""
from __future__ import annotations

import math
import struct
import time

import z3

from .core import Abort, Unsupported, Pruned, Budget, PathResult

F64 = z3.Float64()
RNE = z3.RNE()
NAN = float('nan')
_E = None


def _c(x):
    """concrete number -> FP numeral (exact for doubles; ints must be exactly representable)"""
    if isinstance(x, bool):
        x = int(x)
    if isinstance(x, int):
        if abs(x) >= 2 ** 53:
            raise Unsupported('integer too large for exact double')
        return z3.FPVal(float(x), F64)
    x = float.__float__(x) if type(x) is not float else x
    if x != x or x in (math.inf, -math.inf):
        raise Unsupported('non-finite concrete float in FP mode')
    return z3.FPVal(x, F64)


def FT(x):
    return x.t if isinstance(x, SF) else _c(x)


def _num(x):
    return isinstance(x, (int, float))


def _is0(x):
    return not isinstance(x, SF) and x == 0


def _is1(x):
    return not isinstance(x, SF) and x == 1


class SF(float):
    def __new__(cls, term):
        o = float.__new__(cls, NAN)
        o.t = term
        return o

    def __add__(s, o):
        if not _num(o):
            return NotImplemented
        if _is0(o):
            return s
        return SF(z3.fpAdd(RNE, s.t, FT(o)))

    def __radd__(s, o):
        if not _num(o):
            return NotImplemented
        if _is0(o):
            return s
        return SF(z3.fpAdd(RNE, FT(o), s.t))

    def __sub__(s, o):
        if not _num(o):
            return NotImplemented
        if _is0(o):
            return s
        return SF(z3.fpSub(RNE, s.t, FT(o)))

    def __rsub__(s, o):
        if not _num(o):
            return NotImplemented
        if _is0(o):
            return SF(z3.fpNeg(s.t))
        return SF(z3.fpSub(RNE, FT(o), s.t))

    def __mul__(s, o):
        if not _num(o):
            return NotImplemented
        if _is0(o):
            return 0.0
        if _is1(o):
            return s
        return SF(z3.fpMul(RNE, s.t, FT(o)))

    def __rmul__(s, o):
        if not _num(o):
            return NotImplemented
        if _is0(o):
            return 0.0
        if _is1(o):
            return s
        return SF(z3.fpMul(RNE, FT(o), s.t))

    def __truediv__(s, o):
        if not _num(o):
            return NotImplemented
        if isinstance(o, SF):
            if _E.branch(z3.fpIsZero(o.t)):
                raise ZeroDivisionError('float division by zero')
        elif o == 0:
            raise ZeroDivisionError('float division by zero')
        if _is1(o):
            return s
        return SF(z3.fpDiv(RNE, s.t, FT(o)))

    def __rtruediv__(s, o):
        if not _num(o):
            return NotImplemented
        if _E.branch(z3.fpIsZero(s.t)):
            raise ZeroDivisionError('float division by zero')
        if _is0(o):
            return 0.0
        return SF(z3.fpDiv(RNE, FT(o), s.t))

    def __neg__(s):
        return SF(z3.fpNeg(s.t))

    def __pos__(s):
        return s

    def __abs__(s):
        return SF(z3.fpAbs(s.t))

    def __pow__(s, o, mod=None):
        if isinstance(o, int) and not isinstance(o, SF) and o == 2 and mod is None:
            return SF(z3.fpMul(RNE, s.t, s.t))
        raise Unsupported('pow in FP mode')

    def __lt__(s, o):
        return _E.branch(z3.fpLT(s.t, FT(o))) if _num(o) else NotImplemented

    def __le__(s, o):
        return _E.branch(z3.fpLEQ(s.t, FT(o))) if _num(o) else NotImplemented

    def __gt__(s, o):
        return _E.branch(z3.fpGT(s.t, FT(o))) if _num(o) else NotImplemented

    def __ge__(s, o):
        return _E.branch(z3.fpGEQ(s.t, FT(o))) if _num(o) else NotImplemented

    def __eq__(s, o):
        if not _num(o):
            return False
        return _E.branch(z3.fpEQ(s.t, FT(o)))

    def __ne__(s, o):
        if not _num(o):
            return True
        return _E.branch(z3.Not(z3.fpEQ(s.t, FT(o))))

    def __bool__(s):
        return _E.branch(z3.Not(z3.fpIsZero(s.t)))

    def __hash__(s):
        raise Unsupported('hash of a symbolic double')

    def __float__(s):
        raise Unsupported('float() of a symbolic double')

    def __int__(s):
        raise Unsupported('int() of a symbolic double')

    __index__ = __trunc__ = __floor__ = __ceil__ = __int__

    def __round__(s, n=None):
        """round-half-even to an integer as CPython does; forks over the engine's candidate integers"""
        if n is not None:
            raise Unsupported('round(x, n) of a symbolic double')
        r = z3.fpRoundToIntegral(RNE, s.t)
        for k in getattr(_E, 'round_candidates', ()):
            if _E.branch(z3.fpEQ(r, _c(k))):
                return k
        raise Pruned('round() outside the candidate integers')

    def __repr__(s):
        return '<fp>'

    __str__ = __repr__

    def __format__(s, spec):
        return '<fp>'


def fp_abs(x):
    return abs(x) if isinstance(x, SF) else math.fabs(x)


class FPEnv:
    symbolic = True
    fp = True

    def __init__(self, eng):
        self.eng = eng

    def real(self, name, lo=None, hi=None, lo_open=False, hi_open=False):
        v = self.eng.var(name)
        if lo is not None:
            self.eng.assume(z3.fpGT(v, _c(lo)) if lo_open else z3.fpGEQ(v, _c(lo)))
        if hi is not None:
            self.eng.assume(z3.fpLT(v, _c(hi)) if hi_open else z3.fpLEQ(v, _c(hi)))
        return SF(v)

    def assume(self, cond):
        self.eng.assume(cond)


class FPEngine:
    def __init__(self, max_paths=400, max_seconds=300):
        self.max_paths = max_paths
        self.max_seconds = max_seconds
        self._vars = {}
        self.stats = dict(paths=0, branches=0)

    def var(self, name):
        v = self._vars.get(name)
        if v is None:
            v = self._vars[name] = z3.FP(name, F64)
            self.finite.append(z3.Not(z3.fpIsInf(v)))
            self.finite.append(z3.Not(z3.fpIsNaN(v)))
        return v

    def assume(self, cond):
        cid = cond.get_id()
        if cid not in self._assumed:
            self._assumed.add(cid)
            self.path_assumptions.append(cond)

    def branch(self, cond):
        cond = z3.simplify(cond)
        if z3.is_true(cond):
            return True
        if z3.is_false(cond):
            return False
        cid = cond.get_id()
        d = self.known.get(cid)
        if d is not None:
            return d
        self.stats['branches'] += 1
        if self.pos < len(self.decisions):
            d = self.decisions[self.pos]
        else:
            if len(self.decisions) > 200:
                raise Pruned('more than 200 forks on one FP path')
            self.worklist.append(self.decisions[:self.pos] + [False])
            d = True
            self.decisions.append(d)
        self.pos += 1
        self.path.append(cond if d else z3.Not(cond))
        self.known[cid] = d
        return d

    def explore(self, fn):
        global _E
        prev = _E
        _E = self
        self.finite = []
        self.worklist = [[]]
        out = []
        t0 = time.time()
        env = FPEnv(self)
        self.exhausted = True
        try:
            while self.worklist:
                if self.stats['paths'] >= self.max_paths or time.time() - t0 > self.max_seconds:
                    self.exhausted = False
                    break
                self.decisions = list(self.worklist.pop())
                self.pos = 0
                self.path = []
                self.known = {}
                self._assumed = set()
                self.path_assumptions = []
                try:
                    val = fn(env)
                    res = PathResult(self.decisions, None, 'ok', value=val)
                except Abort:
                    continue
                except Pruned as e:
                    res = PathResult(self.decisions, None, 'pruned', exc=e)
                except Unsupported as e:
                    res = PathResult(self.decisions, None, 'unsupported', exc=e)
                except Exception as e:  # noqa
                    res = PathResult(self.decisions, None, 'exc', exc=e)
                res.path = list(self.finite) + list(self.path_assumptions) + list(self.path)
                self.stats['paths'] += 1
                out.append(res)
        finally:
            _E = prev
        return out


# ----------------------------------------------------------------------------
def fp_value(m, v):
    """model value of a Float64 variable as a Python float"""
    x = m.eval(v, model_completion=True)
    if z3.is_fp(x):
        if z3.is_fprm(x):
            raise ValueError
        try:
            if x.isNaN():
                return NAN
            if x.isInf():
                return -math.inf if x.isNegative() else math.inf
        except Exception:  # noqa
            pass
        bv = z3.simplify(z3.fpToIEEEBV(x))
        if z3.is_bv_value(bv):
            return struct.unpack('>d', bv.as_long().to_bytes(8, 'big'))[0]
    raise ValueError('cannot read FP model value %s' % x)


def solve(formulas, timeout_s, seed=0):
    """('sat', model) | ('unsat', None) | ('unknown', None) with z3 only (the cvc5 wheel is raced by callers that need it)"""
    s = z3.SolverFor('QF_FP')
    s.set('timeout', int(timeout_s * 1000))
    s.set('random_seed', seed)
    for f in formulas:
        s.add(f)
    r = s.check()
    if r == z3.sat:
        return 'sat', s.model()
    if r == z3.unsat:
        return 'unsat', None
    return 'unknown', None


def to_smt2(formulas):
    s = z3.Solver()
    for f in formulas:
        s.add(f)
    return '(set-logic QF_FP)\n' + s.to_smt2().replace('(set-info :status unknown)\n', '')


# ----------------------------------------------------------------------------
# racing z3 (in process) against the cvc5 binary (sub-process) on one QF_FP query
# ----------------------------------------------------------------------------
def _parse_cvc5_model(text):
    """{name: float} from cvc5's (define-fun x () (_ FloatingPoint 11 53) (fp #b. #b... #b...)) lines"""
    import re
    out = {}
    for m in re.finditer(r'\(define-fun\s+(\S+)\s+\(\)\s+\(_ FloatingPoint 11 53\)\s+\(fp #b([01]) #b([01]{11}) #b([01]{52})\)\)', text):
        bits = int(m.group(2) + m.group(3) + m.group(4), 2)
        out[m.group(1).strip('|')] = struct.unpack('>d', bits.to_bytes(8, 'big'))[0]
    return out


def solve_race(formulas, variables, timeout_s, seed=0, extra_s=None):
    """returns (verdict, {name: float} or None, who).  verdict in sat/unsat/unknown"""
    import os
    import shutil
    import subprocess
    import tempfile
    exe = shutil.which('cvc5')
    proc = None
    path = None
    if exe:
        fd, path = tempfile.mkstemp(suffix='.smt2', prefix='symx_fp_')
        with os.fdopen(fd, 'w') as f:
            f.write(to_smt2(formulas).replace('(check-sat)', '') + '\n(check-sat)\n(get-model)\n')
        total = int((timeout_s + (extra_s if extra_s is not None else timeout_s / 2)) * 1000)
        proc = subprocess.Popen([exe, '--produce-models', '--tlimit=%d' % total, path],
                                stdout=subprocess.PIPE, stderr=subprocess.DEVNULL, text=True)
    try:
        r, m = solve(formulas, timeout_s, seed)
        if r == 'sat':
            return 'sat', {n: fp_value(m, v) for n, v in variables.items()}, 'z3'
        if r == 'unsat':
            return 'unsat', None, 'z3'
        if proc is not None:
            try:
                out, _ = proc.communicate(timeout=(extra_s if extra_s is not None else timeout_s / 2) + 5)
            except subprocess.TimeoutExpired:
                proc.kill()
                out = ''
            first = out.strip().split('\n', 1)[0].strip() if out else ''
            if first == 'unsat':
                return 'unsat', None, 'cvc5'
            if first == 'sat':
                vals = _parse_cvc5_model(out)
                if all(n in vals for n in variables):
                    return 'sat', {n: vals[n] for n in variables}, 'cvc5'
        return 'unknown', None, None
    finally:
        if proc is not None and proc.poll() is None:
            proc.kill()
        if path and os.path.exists(path):
            os.unlink(path)
