"""Environment model for gearpy (the complete list of stubs; each is part of every
claim that uses it).  All are installed by assigning a name in the *gearpy
module's* namespace from the harness process, never by editing /repo, and are
removed again before any concrete replay."""
from __future__ import annotations

import math
from contextlib import contextmanager

import numpy as _np

from .core import (SR, T, Unsupported, Pruned, engine, ssqrt, smin, smax, ite)
from .core import sabs as _sabs_r
from .fp import SF


def sabs(x):
    if isinstance(x, SF):
        return abs(x)
    return _sabs_r(x)

STUB_DOC = {
    'gearpy.solver.np.arange': 'R: start+i*step while < stop (numpy doc: half-open interval), count by forking, '
                               'bounded by kmax; concrete arguments go to real numpy',
    'gearpy.solver.float': 'identity on proxies; builtin float otherwise',
    'gearpy.units.unit_base.fabs': 'ite(x>=0,x,-x) on proxies; math.fabs otherwise',
    'spur_gear.sqrt / helical_gear.sqrt': 'fresh y>=0 with y*y==x; x<0 raises ValueError as math.sqrt does',
    'start_limit_current.np.sqrt': 'fresh y>=0 with y*y==x; x<0 is a domain-event path (numpy returns NaN)',
    'gearpy.units.units.sin/cos/tan, helical_gear.atan': 'real libm on concrete arguments; Unsupported on proxies',
    'gearpy.powertrain.interp1d': 'piecewise-linear interpolation on ascending distinct knots, fork on bracket, '
                                  'ValueError out of range (scipy doc; kind linear / previous / next); real scipy on concrete data',
    'pwm_control.min/max': 'builtin semantics through forking comparisons (no stub) unless ite-mode requested',
}


def _has_sym(*xs):
    for x in xs:
        if isinstance(x, (SR, SF)):
            return True
        if isinstance(x, (list, tuple)):
            if _has_sym(*x):
                return True
    return False


class NpShim:
    """stands in for the `np` name inside a gearpy module"""

    def __init__(self, kmax=64):
        self._kmax = kmax

    def arange(self, start, stop=None, step=1, *a, **k):
        if not _has_sym(start, stop, step):
            return _np.arange(start, stop, step, *a, **k)
        if any(isinstance(x, SF) for x in (start, stop, step)):
            return fp_arange(start, stop, step)
        if a or k:
            raise Unsupported('arange with dtype on proxies')
        if not (step > 0):
            raise Unsupported('arange with non-positive symbolic step')
        out = []
        i = 0
        while True:
            v = start + i * step
            if not (v < stop):
                break
            out.append(v)
            i += 1
            if i > self._kmax:
                raise Pruned('arange longer than %d' % self._kmax)
        return out

    def sqrt(self, x):
        if isinstance(x, SR):
            return ssqrt(x, on_negative='nan')
        return _np.sqrt(x)

    def __getattr__(self, name):
        real = getattr(_np, name)
        if not callable(real):
            return real

        def guarded(*a, **k):
            if _has_sym(*a) or _has_sym(*k.values()):
                raise Unsupported('numpy.%s on a proxy' % name)
            return real(*a, **k)
        return guarded


def fp_arange(start, stop, step):
    """exact model of numpy.arange on doubles: length = ceil((stop - start)/step) evaluated in double arithmetic
    (_calc_length), elements start + i*delta with delta = (start + step) - start (DOUBLE_fill)"""
    import z3
    from . import fp
    eng = fp._E
    q = (stop - start) / step
    n = None
    for k in getattr(eng, 'round_candidates', ()):
        if k < 0:
            continue
        c = z3.And(z3.fpGT(fp.FT(q), fp._c(k - 1)), z3.fpLEQ(fp.FT(q), fp._c(k))) if k > 0 else z3.fpLEQ(fp.FT(q), fp._c(0))
        if eng.branch(c):
            n = k
            break
    if n is None:
        raise Pruned('arange length outside the candidate integers')
    delta = (start + step) - start
    return [start + i * delta if i else start for i in range(n)]


def sfloat(x=0.0):
    if isinstance(x, (SR, SF)):
        return x
    return float(x)


def _guard(fn, name):
    def g(x):
        if isinstance(x, (SR, SF)):
            raise Unsupported('%s of a proxy' % name)
        return fn(x)
    return g


def sqrt_raise(x):
    if isinstance(x, SR):
        return ssqrt(x, on_negative='raise')
    return math.sqrt(x)


class _Taker:
    def __init__(self, v):
        self.v = v

    def take(self, i):
        return self.v


class SInterp1d:
    def __init__(self, x, y, **kw):
        self.x = list(x)
        self.y = list(y)
        self.kw = kw
        self.real = None
        if not _has_sym(self.x, self.y):
            from scipy.interpolate import interp1d
            self.real = interp1d(x=x, y=y, **kw)

    def __call__(self, xq):
        if self.real is not None and not isinstance(xq, SR):
            return self.real(xq)
        kind = self.kw.get('kind', 'linear')
        if set(self.kw) - {'kind'} or kind not in ('linear', 'previous', 'next'):
            raise Unsupported('interp1d options on proxies: %r' % (self.kw,))
        x, y = self.x, self.y
        if len(x) != len(y):
            raise ValueError('x and y arrays must be equal in length along interpolation axis.')
        if len(x) < 2:
            raise ValueError('x and y arrays must have at least 2 entries')
        if xq < x[0]:
            raise ValueError('A value in x_new is below the interpolation range.')
        if xq > x[-1]:
            raise ValueError('A value in x_new is above the interpolation range.')
        if kind == 'previous':
            # scipy doc: the previous point's value (the sample at the largest knot <= x_new)
            for i in range(len(x) - 1, -1, -1):
                if xq >= x[i]:
                    return _Taker(y[i])
        if kind == 'next':
            for i in range(len(x)):
                if xq <= x[i]:
                    return _Taker(y[i])
        for i in range(len(x) - 1):
            if xq <= x[i + 1]:
                slope = (y[i + 1] - y[i]) / (x[i + 1] - x[i])
                return _Taker(slope * (xq - x[i]) + y[i])
        raise Unsupported('interp1d bracket not found')


@contextmanager
def installed(kmax=64, ite_minmax=False):
    """install the environment model; restores everything on exit"""
    import gearpy.solver as gs
    import gearpy.units.unit_base as ub
    import gearpy.units.units as uu
    import gearpy.mechanical_objects.spur_gear as sg
    import gearpy.mechanical_objects.helical_gear as hg
    import gearpy.motor_control.rules.start_limit_current as slc
    import gearpy.motor_control.pwm_control as pc
    import gearpy.powertrain as pt

    shim = NpShim(kmax)
    plan = [
        (gs, 'np', shim), (gs, 'float', sfloat),
        (ub, 'fabs', sabs),
        (uu, 'sin', _guard(math.sin, 'sin')), (uu, 'cos', _guard(math.cos, 'cos')),
        (uu, 'tan', _guard(math.tan, 'tan')),
        (sg, 'sqrt', sqrt_raise), (hg, 'sqrt', sqrt_raise), (hg, 'atan', _guard(math.atan, 'atan')),
        (slc, 'np', shim),
        (pt, 'interp1d', SInterp1d),
    ]
    if ite_minmax:
        plan += [(pc, 'min', smin), (pc, 'max', smax)]
    missing = object()
    saved = []
    try:
        for mod, name, val in plan:
            saved.append((mod, name, mod.__dict__.get(name, missing)))
            setattr(mod, name, val)
        yield
    finally:
        for mod, name, old in reversed(saved):
            if old is missing:
                try:
                    delattr(mod, name)
                except AttributeError:
                    pass
            else:
                setattr(mod, name, old)


def stubs_used():
    return [k + ': ' + v for k, v in STUB_DOC.items()]
