"""SStr: a `str` whose identity is symbolic.  Equality between two SStr forks on the
equality of their z3 Int identities, so the solver enumerates the equality
patterns (set partitions) of a family of names.  Identity 0 is the empty string;
concrete strings get fixed negative identities."""
from __future__ import annotations

import z3

from . import core

_CONCRETE = {'': 0}


def _cid(s):
    if s not in _CONCRETE:
        _CONCRETE[s] = -len(_CONCRETE)
    return _CONCRETE[s]


class SStr(str):
    def __new__(cls, label, ident):
        o = str.__new__(cls, '<%s>' % label)
        o.ident = ident
        return o

    def _other(self, o):
        if isinstance(o, SStr):
            return o.ident
        if isinstance(o, str):
            return z3.IntVal(_cid(str.__str__(o)))
        return None

    def __eq__(self, o):
        t = self._other(o)
        if t is None:
            return False
        return core.engine().branch(self.ident == t)

    def __ne__(self, o):
        return not self.__eq__(o)

    def __hash__(self):
        return 0

    def __bool__(self):
        return core.engine().branch(self.ident != 0)

    def __len__(self):
        return 1 if self.__bool__() else 0
