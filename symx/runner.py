"""CLI: /verif/check <ID> [--tier quick|thorough] [--replay file]

exit 0 = property held on everything explored (known findings are announced)
exit 1 = a reproduced violation that known_findings.json does not list
exit 2 = inconclusive / harness error (never a pass, never a detection)
"""
from __future__ import annotations

import argparse
import importlib
import json
import multiprocessing as mp
import os
import signal
import sys
import time
import traceback

if hasattr(sys, 'set_int_max_str_digits'):
    sys.set_int_max_str_digits(0)       # exact rationals of long histories print with thousands of digits

VERIF = os.path.dirname(os.path.dirname(os.path.abspath(__file__)))
REPO = os.environ.get('VERIF_REPO', '/repo')


class _JobTimeout(BaseException):
    pass


def _alarm(signum, frame):
    raise _JobTimeout()


def _worker(args):
    modname, spec, cap, want_functions = args
    from symx import harness as H
    mod = importlib.import_module(modname)
    signal.signal(signal.SIGALRM, _alarm)
    signal.alarm(int(cap))
    t0 = time.time()
    try:
        h = mod.build(spec)
        rt = getattr(mod, 'REQUIRED_TRIGGERS', {})
        rt = tuple(rt.get(os.environ.get('VERIF_TIER_EFFECTIVE', 'quick'), rt.get('quick', ())))
        for hh in (getattr(h, 'harnesses', None) or [h]):
            if not getattr(hh, 'required_triggers', ()):
                hh.required_triggers = rt
        if hasattr(h, 'process'):
            R = h.process(want_functions=want_functions)
        else:
            R = H.process(h, want_functions=want_functions)
        R['spec'] = spec
        return R
    except _JobTimeout:
        return dict(spec=spec, harness=str(spec), inconclusive=['job hit its %ds wall-clock cap' % cap],
                    violations=[], paths=0, obligations=0, discharged=0, stats={}, wall_s=time.time() - t0)
    except BaseException as e:  # noqa
        return dict(spec=spec, harness=str(spec),
                    inconclusive=['harness error: %s: %s\n%s' % (type(e).__name__, e, traceback.format_exc()[-1500:])],
                    violations=[], paths=0, obligations=0, discharged=0, stats={}, wall_s=time.time() - t0)
    finally:
        signal.alarm(0)


def load_known(pid):
    p = os.path.join(VERIF, 'known_findings.json')
    if not os.path.exists(p):
        return []
    with open(p) as f:
        data = json.load(f)
    return [e for e in data.get('findings', []) if e.get('property') == pid]


def main(argv=None):
    ap = argparse.ArgumentParser()
    ap.add_argument('pid')
    ap.add_argument('--tier', default=os.environ.get('VERIF_TIER', 'quick'))
    ap.add_argument('--replay')
    ap.add_argument('--procs', type=int, default=int(os.environ.get('VERIF_PROCS', '16')))
    ap.add_argument('--only', default=None, help='debug: run only harness specs whose repr contains this')
    ap.add_argument('--no-evidence', action='store_true')
    ap.add_argument('-v', action='store_true')
    a = ap.parse_args(argv)
    pid = a.pid.upper()
    tier = a.tier if a.tier in ('quick', 'thorough') else 'quick'
    seed = int(os.environ.get('VERIF_SEED', '0') or 0)
    sys.path.insert(0, REPO)
    sys.path.insert(0, VERIF)
    sys.dont_write_bytecode = True
    t0 = time.time()
    modname = 'props.%s' % pid.lower()
    mod = importlib.import_module(modname)

    if a.replay:
        return do_replay(mod, pid, a.replay)

    os.environ['VERIF_TIER_EFFECTIVE'] = tier
    os.environ.setdefault('VERIF_CROSS_EVERY', '100' if tier == 'quick' else '25')
    specs = mod.specs(tier, seed)
    if a.only:
        specs = [s for s in specs if a.only in repr(s)]
    cap = getattr(mod, 'JOB_CAP', {}).get(tier, 900)
    import gearpy  # noqa  (preload before fork)
    want_f = True
    jobs = [(modname, s, cap, want_f) for s in specs]
    results = []
    if a.procs <= 1 or len(jobs) == 1:
        for j in jobs:
            results.append(_worker(j))
    else:
        ctx = mp.get_context('fork')
        with ctx.Pool(min(a.procs, len(jobs)), maxtasksperchild=8) as pool:
            for R in pool.imap_unordered(_worker, jobs, chunksize=1):
                results.append(R)
                if a.v:
                    print('  job %-60s paths=%-5s obl=%-6s viol=%d inc=%d q=%s %.1fs %s' % (
                        str(R.get('harness'))[:60], R.get('paths'), R.get('obligations'),
                        len(R['violations']), len(R['inconclusive']), (R.get('stats') or {}).get('queries'),
                        R.get('wall_s', 0), R.get('robust_families') or ''), flush=True)
    results.sort(key=lambda r: repr(r.get('spec')))
    return finish(mod, pid, tier, seed, results, t0, a)


def finish(mod, pid, tier, seed, results, t0, a):
    known = load_known(pid)
    open_keys = {e['key']: e for e in known if e.get('status') == 'open'}
    agg = dict(paths=0, ok_paths=0, exc_paths=0, pruned=0, unsupported=0, domain=0, obligations=0,
               discharged=0, discharged_exact=0, discharged_robust=0, validated=0, validation_boundary=0)
    stats = dict(queries=0, solver_s=0.0, unknown=0, branches=0, cross_agree=0, cross_disagree=0, cross_undecided=0)
    triggers = {}
    funcs = set()
    samples = []
    violations = []
    inconclusive = []
    extra = {}
    for R in results:
        for k in agg:
            agg[k] += R.get(k, 0) or 0
        for k in stats:
            stats[k] += (R.get('stats') or {}).get(k, 0) or 0
        extra['max_query_s'] = max(extra.get('max_query_s', 0.0), (R.get('stats') or {}).get('max_query_s', 0.0) or 0.0)
        for k, v in (R.get('triggers') or {}).items():
            triggers[k] = triggers.get(k, 0) + v
        funcs.update(R.get('functions') or [])
        for s in (R.get('samples') or []):
            if len(samples) < 6:
                samples.append(s)
        violations += R.get('violations') or []
        for m in R.get('inconclusive') or []:
            inconclusive.append('%s: %s' % (R.get('harness'), m))
        for k, v in (R.get('extra') or {}).items():
            if isinstance(v, (int, float)):
                extra[k] = extra.get(k, 0) + v
            elif isinstance(v, list):
                extra.setdefault(k, [])
                extra[k] = (extra[k] + v)[:12]
    # vacuity guard
    for fam in getattr(mod, 'REQUIRED_TRIGGERS', {}).get(tier, getattr(mod, 'REQUIRED_TRIGGERS', {}).get('quick', ())):
        if a.only:
            break
        if triggers.get(fam, 0) < 1:
            inconclusive.append('vacuity: obligation family %r was never triggered' % fam)
    if agg['paths'] == 0 and not extra.get('queries'):
        inconclusive.append('no path explored')

    lines = []
    new_viol = []
    seen_known = set()
    os.makedirs(os.path.join(VERIF, 'replays'), exist_ok=True)
    for v in violations:
        k = v['key']
        if k in open_keys:
            if k not in seen_known:
                seen_known.add(k)
                lines.append('KNOWN-FINDING: property=%s %s [key=%s]' % (pid, open_keys[k]['what'], k))
            continue
        new_viol.append(v)
    seen = set()
    for v in new_viol:
        if v['key'] in seen:
            continue
        seen.add(v['key'])
        rp = os.path.join(VERIF, 'replays', '%s_%s.json' % (pid, _safe(v['key'])))
        with open(rp, 'w') as f:
            json.dump(dict(property=pid, spec=_spec_of(results, v), **v), f, indent=1, default=str)
        lines.append('VIOLATION property=%s replay=%s' % (pid, rp))
        lines.append('  what: %s | %s | inputs=%s' % (v['key'], v.get('detail', '')[:300],
                                                     json.dumps(v.get('inputs'), default=str)[:400]))
    wall = time.time() - t0
    ev = dict(
        property_id=pid, tier=tier, seed=seed, level='model_checking',
        coverage=dict(
            states=agg['paths'] + int(extra.get('states', 0)),
            transitions=stats['branches'] + int(extra.get('transitions', 0)),
            traces_validated_against_impl=agg['validated'] + int(extra.get('validated', 0)),
            samples=samples or extra.get('samples', []),
            obligations=agg['obligations'] + int(extra.get('obligations', 0)),
            discharged=agg['discharged'] + int(extra.get('discharged', 0)),
            discharged_exact=agg['discharged_exact'], discharged_robust=agg['discharged_robust'],
            paths_ok=agg['ok_paths'], paths_raised=agg['exc_paths'], pruned_by_bound=agg['pruned'],
            unsupported_paths=agg['unsupported'], domain_event_paths=agg['domain'],
            validation_skipped_boundary_models=agg['validation_boundary'],
            queries=stats['queries'] + int(extra.get('queries', 0)),
            solver_s=round(stats['solver_s'] + float(extra.get('solver_s', 0.0)), 3),
            unknown=stats['unknown'] + int(extra.get('unknown', 0)),
            slowest_query_s=round(float(extra.get('max_query_s', 0.0)), 3),
            cross_solver=dict(every=int(os.environ.get('VERIF_CROSS_EVERY', '0') or 0), agree=stats['cross_agree'],
                              disagree=stats['cross_disagree'], cvc5_undecided=stats['cross_undecided']),
            configurations=len(results),
            triggers_witnessed=triggers,
            functions_encoded=sorted(funcs),
            bounds=getattr(mod, 'BOUNDS', {}).get(tier, ''),
            outside_claim=getattr(mod, 'OUTSIDE', ''),
            stubs=getattr(mod, 'STUBS', []),
            known_findings_seen=sorted(seen_known),
            inconclusive=inconclusive[:20],
            explanation=getattr(mod, 'EXPLANATION', ''),
            exhaustive=False,
            **{k: v for k, v in extra.items() if k not in (
                'states', 'transitions', 'validated', 'obligations', 'discharged', 'queries', 'solver_s',
                'unknown', 'samples')}
        ),
        assumptions=list(getattr(mod, 'ASSUMPTIONS', [])),
        wall_s=round(wall, 2), violations=len(seen),
    )
    if not a.no_evidence and not a.only:
        os.makedirs(os.path.join(VERIF, 'evidence'), exist_ok=True)
        with open(os.path.join(VERIF, 'evidence', '%s.json' % pid), 'w') as f:
            json.dump(ev, f, indent=1, default=str)
    for ln in lines:
        print(ln)
    c = ev['coverage']
    print('%s %s: %d configurations, %d paths, %d/%d obligations discharged, %d queries (%.1fs solver, %d unknown), '
          '%d traces validated, %.1fs wall' % (pid, tier, len(results), c['states'], c['discharged'], c['obligations'],
                                               c['queries'], c['solver_s'], c['unknown'],
                                               c['traces_validated_against_impl'], wall))
    if seen:
        return 1
    if inconclusive:
        for m in inconclusive[:15]:
            print('INCONCLUSIVE: ' + m[:600])
        return 2
    return 0


def _safe(s):
    return ''.join(ch if ch.isalnum() or ch in '-_.' else '_' for ch in s)[:120]


def _spec_of(results, v):
    for R in results:
        if v in (R.get('violations') or []):
            return R.get('spec')
    return None


def do_replay(mod, pid, path):
    from symx import harness as H
    with open(path) as f:
        data = json.load(f)
    spec = data['spec']
    if isinstance(spec, list):
        spec = _tuplify(spec)
    h = mod.build(spec)
    if hasattr(h, 'replay'):
        return h.replay(data)
    out, cenv = H.run_concrete(h, data['inputs'])
    failed, detail = H.check_ground(h, out)
    print('replay of %s on %s: outcome=%s %s' % (path, REPO, out.status, repr(out.exc) if out.exc else ''))
    if failed:
        print('VIOLATION property=%s replay=%s' % (pid, path))
        print('  failed: %s' % detail)
        return 1
    print('no violation reproduced')
    return 0


def _tuplify(x):
    if isinstance(x, list):
        return tuple(_tuplify(i) for i in x)
    return x


if __name__ == '__main__':
    sys.exit(main())
