"""Run one harness: explore the real code symbolically, discharge the property's
obligations on every path, validate traces against the implementation, replay
counterexamples on the unpatched library."""
from __future__ import annotations

import json
import math
import sys
import time
import traceback
from fractions import Fraction

import z3

from . import stubs
from .core import (Engine, SR, T, ConcEnv, Unsupported, DomainEvent, Pruned, interior_model,
                   model_to_floats, eval_term, has_equality_atom)
from .ob import Ob, ground_true


class Outcome:
    __slots__ = ('status', 'value', 'exc')

    def __init__(self, status, value=None, exc=None):
        self.status = status
        self.value = value
        self.exc = exc

    @property
    def ok(self):
        return self.status == 'ok'

    def raised(self, *classes):
        return self.status == 'exc' and isinstance(self.exc, classes)


class HarnessBase:
    name = 'harness'
    use_stubs = True
    kmax = 64
    ite_minmax = False
    timeout_ms = 60000      # R-mode queries take milliseconds to a few seconds on an idle machine; the margin is for a loaded one
    max_paths = 5000
    max_seconds = 600
    validate_max = 40          # paths per harness validated against the implementation
    required_triggers = ()     # obligation families whose trigger must be witnessed
    loosen = 10                # concrete replay uses tol*loosen

    def run(self, env):
        raise NotImplementedError

    def obligations(self, outcome):
        raise NotImplementedError

    def describe(self):
        return {'harness': self.name}

    def finding_key(self, ob, values):
        return '%s:%s' % (self.name, ob.family)

    def unsupported_is_benign(self, res):
        return False

    def boundary_excuse(self, sym_out, conc_out):
        return False

    def relax_path(self, path):
        """optional sound weakening of the path condition used when deciding obligations (default: none)"""
        return path


# ----------------------------------------------------------------------------
def raised_by_harness(e):
    """did the exception originate in the harness/oracle code (a bug of the machinery, never a finding)?"""
    tb = e.__traceback__
    last = None
    while tb is not None:
        last = tb
        tb = tb.tb_next
    if last is None:
        return False
    fn = last.tb_frame.f_code.co_filename
    return '/props/' in fn or '/oracles/' in fn or fn.endswith('symx/harness.py') or fn.endswith('symx/ob.py')


def flatten(x, prefix='', out=None):
    if out is None:
        out = {}
    if isinstance(x, dict):
        for k, v in x.items():
            if isinstance(k, str) and (k.startswith('_') or k == 'msg' or k.endswith('_msg')):
                continue        # concrete-only observations (file export etc.)
            flatten(v, '%s.%s' % (prefix, k) if prefix else str(k), out)
    elif isinstance(x, (list, tuple)):
        for i, v in enumerate(x):
            flatten(v, '%s[%d]' % (prefix, i), out)
    else:
        out[prefix] = x
    return out


def float_subs(eng, values):
    """substitution of every input variable by the exact rational of the double the concrete run receives"""
    subs = []
    for name, v in eng._vars.items():
        if name in values:
            val = values[name]
            if z3.is_int(v):
                subs.append((v, z3.IntVal(int(val))))
            else:
                subs.append((v, z3.RealVal(Fraction(val))))
    return subs


def float_model(eng, values, model):
    """a z3 model in which every input variable has the exact rational of the double the concrete run receives (variables
    the run does not receive keep the value of `model`); None if that is not satisfiable/decidable at once"""
    s_ = z3.Solver()
    s_.set('timeout', 5000)
    for name, v in eng._vars.items():
        if name in values:
            val = values[name]
            s_.add(v == (z3.IntVal(int(val)) if z3.is_int(v) else z3.RealVal(Fraction(val))))
        else:
            try:
                s_.add(v == model.eval(v, model_completion=True))
            except z3.Z3Exception:
                pass
    if s_.check() == z3.sat:
        return s_.model()
    return None


def _eval_at(term, model, subs):
    """the term's exact value at the ROUNDED inputs (what the concrete run computes up to its own rounding); an
    ill-conditioned trace amplifies the 1e-16 rounding of the model's rationals far beyond any tolerance otherwise.
    Falls back to the solver's model when the term has auxiliary variables."""
    if subs is not None and not isinstance(subs, list):
        try:
            return eval_term(subs, term)        # subs is a model of the rounded inputs
        except ValueError:
            return eval_term(model, term)
    if subs:
        g = z3.simplify(z3.substitute(term, *subs))
        if z3.is_rational_value(g):
            return Fraction(g.numerator_as_long(), g.denominator_as_long())
        if z3.is_int_value(g):
            return Fraction(g.as_long())
    return eval_term(model, term)


def _leaf_equal(sym_leaf, conc_leaf, model, scale=1.0, subs=None):
    if isinstance(sym_leaf, SR):
        if not isinstance(conc_leaf, (int, float)) or isinstance(conc_leaf, bool):
            return False, 'type %r' % type(conc_leaf).__name__
        exp = float(_eval_at(sym_leaf.t, model, subs))
        got = float(conc_leaf)
    elif isinstance(sym_leaf, float) and not isinstance(sym_leaf, bool):
        if not isinstance(conc_leaf, (int, float)):
            return False, 'type'
        exp, got = float(sym_leaf), float(conc_leaf)
    else:
        if isinstance(sym_leaf, z3.ExprRef):
            return True, ''
        return (sym_leaf == conc_leaf), '%r != %r' % (sym_leaf, conc_leaf)
    if got != got or exp != exp:
        return False, 'NaN'
    if math.isclose(exp, got, rel_tol=1e-6, abs_tol=1e-9 * max(1.0, abs(exp), scale)):
        return True, ''
    return False, 'expected %r got %r' % (exp, got)


def run_concrete(h, values):
    """plain floats, unpatched library"""
    env = ConcEnv(values)
    try:
        val = h.run(env)
        out = Outcome('ok', value=val)
    except (Unsupported, DomainEvent, Pruned) as e:
        out = Outcome('exc', exc=RuntimeError('engine exception in concrete mode: %r' % (e,)))
    except Exception as e:  # noqa
        if raised_by_harness(e):
            out = Outcome('exc', exc=RuntimeError('harness bug in concrete mode: %s: %s' % (type(e).__name__, e)))
        else:
            out = Outcome('exc', exc=e)
    return out, env


def path_holds_on_floats(res, eng, values):
    """do all path atoms hold exactly on the rounded doubles? (otherwise the float
    replay legitimately follows another path: boundary model)"""
    subs = float_subs(eng, values)
    for c in res.path:
        g = z3.simplify(z3.substitute(c, *subs))
        if not z3.is_true(g):
            if z3.is_false(g):
                return False
            if ground_true(g) is not True:
                return False
    return True


def check_ground(h, out):
    """evaluate the harness' obligations on a concrete outcome.
    returns (failed_names, detail)"""
    try:
        obs = h.obligations(out)
    except Unsupported as e:
        return ['non_finite_output'], 'oracle met a non-finite value: %s' % (e,)
    failed = []
    detail = []
    for ob in obs:
        if ob.trigger is not None:
            tr = ground_true(ob.trigger)
            if tr is False:
                continue
        v = ground_true(ob.formula(robust=True, loosen=h.loosen))
        if v is False:
            failed.append(ob)
            if ob.eqdata is not None:
                a, b = ob.eqdata[0], ob.eqdata[1]
                try:
                    detail.append('%s: lhs=%s rhs=%s' % (ob.name, _fl(a), _fl(b)))
                except Exception:  # noqa
                    detail.append(ob.name)
            else:
                detail.append(ob.name + (': ' + str(ob.info) if ob.info else ''))
    return failed, '; '.join(detail[:6])


def _fl(t):
    s = z3.simplify(t)
    if z3.is_rational_value(s):
        return repr(float(Fraction(s.numerator_as_long(), s.denominator_as_long())))
    return str(s)[:40]


# ----------------------------------------------------------------------------
def process(h, want_functions=False):
    t0 = time.time()
    eng = Engine(timeout_ms=h.timeout_ms, max_paths=h.max_paths, max_seconds=h.max_seconds)
    import os as _os
    eng.cross_every = int(_os.environ.get('VERIF_CROSS_EVERY', '0') or 0)
    R = dict(harness=h.name, describe=h.describe(), paths=0, ok_paths=0, exc_paths=0, pruned=0,
             unsupported=0, domain=0, obligations=0, discharged=0, discharged_exact=0,
             discharged_robust=0, violations=[], inconclusive=[], validated=0, validation_boundary=0,
             triggers={}, samples=[], functions=[], exc_classes={})
    funcs = set()
    mon = None
    if want_functions:
        mon = _FuncMonitor(funcs)
        mon.start()
    try:
        if h.use_stubs:
            with stubs.installed(kmax=h.kmax, ite_minmax=h.ite_minmax):
                results = eng.explore(h.run)
        else:
            results = eng.explore(h.run)
    except RuntimeError as e:
        R['inconclusive'].append('engine: %s' % e)
        results = []
    finally:
        if mon:
            mon.stop()
    R['functions'] = sorted(funcs)
    if not eng.exhausted:
        R['inconclusive'].append('exploration budget exhausted (%d paths, %.0fs): not all paths explored'
                                 % (eng.stats['paths'], time.time() - t0))
    candidates = []
    nval = 0
    stride = max(1, len(results) // max(1, h.validate_max))
    for ridx, res in enumerate(results):
        R['paths'] += 1
        if res.status == 'pruned':
            R['pruned'] += 1
            continue
        if res.status in ('unsupported', 'domain'):
            R[res.status] += 1
            # unsupported-path rule: replay models of the path concretely, the concrete oracle decides.  Solvers love
            # degenerate models (all zeros) that mask real differences: a second, generic model (every variable non-zero,
            # all pairwise distinct) is replayed as well.
            models = []
            if res.model is not None:
                models.append(model_to_floats(eng, res.model))
            gm = generic_model(eng, res)
            if gm is not None:
                models.append(model_to_floats(eng, gm))
            hit = False
            bad_assumption = True
            for vals in models or [{}]:
                out, cenv = run_concrete(h, vals)
                if cenv.violated_assumption:
                    continue
                bad_assumption = False
                failed, detail = check_ground(h, out)
                if failed:
                    candidates.append((res, None, vals, True))
                    hit = True
                    break
            if bad_assumption:
                R['inconclusive'].append('%s path (%s): model violates assumption after rounding' % (res.status, res.exc))
            elif not hit and not h.unsupported_is_benign(res):
                R['inconclusive'].append('%s path: %s (concrete replays passed)' % (res.status, res.exc))
            continue
        out = Outcome('ok', value=res.value) if res.status == 'ok' else Outcome('exc', exc=res.exc)
        if res.status == 'exc' and raised_by_harness(res.exc):
            R['inconclusive'].append('harness bug: %s: %s' % (type(res.exc).__name__, res.exc))
            continue
        if res.status == 'ok':
            R['ok_paths'] += 1
        else:
            R['exc_paths'] += 1
            cn = type(res.exc).__name__
            R['exc_classes'][cn] = R['exc_classes'].get(cn, 0) + 1
        try:
            obs = h.obligations(out)
        except Unsupported as e:
            R['inconclusive'].append('oracle: %s' % e)
            continue
        full_path = res.path
        res.path = h.relax_path(res.path)
        R['obligations'] += len(obs)
        sym_families = set(ob.family for ob in obs)
        # triggers (vacuity guard)
        for ob in obs:
            if ob.trigger is not None and ob.family in h.required_triggers \
                    and R['triggers'].get(ob.family, 0) < 3:
                r, _ = eng.sat_with(res, ob.trigger)
                if r == 'sat':
                    R['triggers'][ob.family] = R['triggers'].get(ob.family, 0) + 1
            elif ob.trigger is None:
                R['triggers'][ob.family] = R['triggers'].get(ob.family, 0) + 1
        # stage 1: all exact at once; stage 2: all robust at once; then one by one
        if obs:
            conj = z3.And([ob.first() for ob in obs]) if len(obs) > 1 else obs[0].first()
            r, m = eng.decide(res, conj)
            if r == 'unsat':
                nrob = sum(1 for ob in obs if ob.prefer_robust)
                R['discharged'] += len(obs)
                R['discharged_exact'] += len(obs) - nrob
                R['discharged_robust'] += nrob
            else:
                sus, bulk = _split(eng, res, obs)
                R['discharged'] += bulk
                R['discharged_exact'] += bulk
                for ob in sus:
                    r1 = 'sat'
                    if not ob.prefer_robust:
                        r1, m1 = eng.decide(res, ob.formula())
                    if r1 == 'unsat':
                        R['discharged'] += 1
                        R['discharged_exact'] += 1
                        continue
                    r2, m2 = eng.decide(res, ob.formula(robust=True))
                    if r2 == 'unsat':
                        R['discharged'] += 1
                        R['discharged_robust'] += 1
                        R.setdefault('robust_families', {})
                        R['robust_families'][ob.family] = R['robust_families'].get(ob.family, 0) + 1
                    elif r2 == 'sat':
                        candidates.append((res, ob, model_to_floats(eng, m2), False))
                    else:
                        R['inconclusive'].append('solver unknown on %s' % ob.name)
        res.path = full_path
        # trace validation against the implementation
        if nval < h.validate_max and ridx % stride == 0:
            nval += 1
            model, interior = interior_model(eng, res)
            vals = model_to_floats(eng, model)
            if not interior or not path_holds_on_floats(res, eng, vals):
                R['validation_boundary'] += 1
            else:
                cout, cenv = run_concrete(h, vals)
                ok, why = _compare(out, cout, model, float_model(eng, vals, model) or float_subs(eng, vals))
                if ok:
                    R['validated'] += 1
                    # the oracle is also evaluated on the concrete run (covers concrete-only observations)
                    cfailed, cdetail = check_ground(h, cout)
                    try:
                        for cob in h.obligations(cout):
                            if cob.trigger is None and cob.family not in sym_families:
                                R['triggers'][cob.family] = R['triggers'].get(cob.family, 0) + 1
                    except Unsupported:
                        pass
                    if cfailed:
                        cn = [f if isinstance(f, str) else f.name for f in cfailed]
                        f0 = cfailed[0]
                        ck = h.finding_key(f0 if isinstance(f0, Ob) else Ob(f0, z3.BoolVal(False)), vals)
                        if ck not in [v['key'] for v in R['violations']]:
                            R['violations'].append(dict(key=ck, harness=h.name, describe=h.describe(),
                                                        obligation=cn[0], failed=cn[:10], inputs=vals, detail=cdetail,
                                                        outcome=cout.status))
                elif h.boundary_excuse(out, cout):
                    R['validation_boundary'] += 1
                elif _ill_conditioned(h, vals, cout):
                    # the float run itself is not reproducible at this point of the input space: a relative perturbation
                    # of 1e-9 of the inputs moves its outputs by more than the comparison tolerance (e.g. an explicit-Euler
                    # run far beyond its stability limit amplifies rounding by 1e4 per step). Reals-vs-doubles
                    # comparison is meaningless there; the path is counted as not validated.
                    R['validation_boundary'] += 1
                    R['validation_ill_conditioned'] = R.get('validation_ill_conditioned', 0) + 1
                else:
                    R['inconclusive'].append('trace validation mismatch (engine/stub vs implementation): %s | inputs=%s'
                                             % (why, json.dumps(vals, default=str)[:3000]))
        if len(R['samples']) < 3:
            R['samples'].append(dict(harness=h.name, status=res.status,
                                     exception=type(res.exc).__name__ if res.exc else None,
                                     decisions=len(res.decisions),
                                     inputs=_round(model_to_floats(eng, res.model)),
                                     obligations=[ob.name for ob in obs[:8]], n_obligations=len(obs)))
    # stage 3: replay candidates on the unpatched library.  Candidates are grouped by finding key; a group is a
    # violation as soon as one of its counterexamples reproduces (the solver's first model may sit on a branch
    # boundary that float rounding crosses: a second, interior model is then tried); a group none of whose
    # counterexamples reproduces is inconclusive.
    groups = {}
    for cand in candidates:
        res, ob, vals, from_unsupported = cand
        gk = h.finding_key(ob, vals) if ob is not None else 'unsupported-path'
        groups.setdefault(gk, []).append(cand)
    seen = set()
    for gk, cands in groups.items():
        confirmed = False
        attempts = 0
        last_note = ''
        for res, ob, vals, from_unsupported in cands:
            if confirmed or attempts >= 8:
                break
            trials = [vals]
            if ob is not None:
                m2, ok2 = interior_model(eng, res, extra=[z3.Not(ob.formula(robust=True))])
                if ok2:
                    trials.append(model_to_floats(eng, m2))
                if ob.eqdata is not None:
                    # a counterexample that violates the obligation by a wide margin survives float replay
                    r3, m3 = eng.sat_with(res, z3.Not(ob.formula(robust=True, loosen=1000000)))
                    if r3 == 'sat':
                        trials.append(model_to_floats(eng, m3))
            for tv in trials:
                attempts += 1
                out, cenv = run_concrete(h, tv)
                if cenv.violated_assumption:
                    last_note = 'counterexample violates assumption after rounding: %s' % cenv.violated_assumption
                    continue
                failed, detail = check_ground(h, out)
                if not failed:
                    last_note = 'counterexample for %s did not reproduce on the real code (inputs %s)' % (
                        ob.name if ob else 'unsupported-path', _round(tv))
                    continue
                names = [f if isinstance(f, str) else f.name for f in failed]
                first = failed[0]
                key = h.finding_key(first if isinstance(first, Ob) else Ob(first, z3.BoolVal(False)), tv)
                confirmed = True
                if key in seen:
                    break
                seen.add(key)
                R['violations'].append(dict(key=key, harness=h.name, describe=h.describe(), obligation=names[0],
                                            failed=names[:10], inputs=tv, detail=detail,
                                            outcome=(out.status + ((':' + type(out.exc).__name__ + ': ' +
                                                                    str(out.exc)[:200]) if out.exc else ''))))
                break
        if not confirmed:
            R['inconclusive'].append('%d candidate(s) for %s: %s' % (len(cands), gk, last_note))
    R['stats'] = dict(eng.stats)
    if eng.stats.get('cross_disagree'):
        R['inconclusive'].append('z3 and cvc5 disagree on %d deciding queries' % eng.stats['cross_disagree'])
    R['wall_s'] = time.time() - t0
    return R


def generic_model(eng, res, timeout_ms=4000):
    """a model of the path in which every real variable is non-zero and all are pairwise distinct (None if there is none
    within the time limit)"""
    vs = [v for v in eng._vars.values() if z3.is_real(v)]
    if not vs:
        return None
    s_ = z3.Solver()
    s_.set('timeout', timeout_ms)
    for a in eng.assumptions:
        s_.add(a)
    for c in res.path:
        s_.add(c)
    for v in vs:
        s_.add(v != 0)
    if len(vs) > 1:
        s_.add(z3.Distinct(*vs))
    if s_.check() == z3.sat:
        return s_.model()
    return None


def _split(eng, res, obs):
    """bisect a failing conjunction: returns (obligations still to be decided one by one, number discharged in bulk)"""
    if len(obs) <= 4:
        return list(obs), 0
    mid = len(obs) // 2
    sus, bulk = [], 0
    for part in (obs[:mid], obs[mid:]):
        r, _ = eng.decide(res, z3.And([ob.first() for ob in part]))
        if r == 'unsat':
            bulk += len(part)
        else:
            s2, b2 = _split(eng, res, part)
            sus += s2
            bulk += b2
    return sus, bulk


def _round(d):
    return {k: (float('%.6g' % v) if isinstance(v, float) else v) for k, v in list(d.items())[:24]}


def _ill_conditioned(h, vals, cout):
    """does a tiny relative perturbation of every input (1e-9, 1e-12, 1e-14, either sign) change the concrete run's outputs
    beyond the validation tolerance, or its shape (another number of instants, an exception)?  Cancellation noise is not
    monotone in the perturbation, hence several sizes."""
    if cout.status != 'ok':
        return False
    a = flatten(cout.value)
    scale = 1.0
    for v in a.values():
        if isinstance(v, (int, float)) and not isinstance(v, bool) and v == v and abs(v) != math.inf:
            scale = max(scale, abs(v))
    for eps in (1e-9, -1e-9, 1e-12, -1e-12, 1e-14, -1e-14):
        pert = {k: (v * (1 + eps) if isinstance(v, float) else v) for k, v in vals.items()}
        try:
            c2, _ = run_concrete(h, pert)
        except Exception:  # noqa
            continue
        if c2.status != 'ok':
            return True
        b = flatten(c2.value)
        if set(a) != set(b):
            return True
        for k in a:
            x, y = a[k], b[k]
            if isinstance(x, float) and isinstance(y, float) and x == x and y == y:
                if not math.isclose(x, y, rel_tol=1e-6, abs_tol=1e-9 * max(1.0, abs(x), scale)):
                    return True
    return False


def _compare(sym_out, conc_out, model, subs=None):
    if sym_out.status != conc_out.status:
        return False, 'status %s vs %s (%r)' % (sym_out.status, conc_out.status, conc_out.exc)
    if sym_out.status == 'exc':
        if type(sym_out.exc) is not type(conc_out.exc):
            return False, 'exception %s vs %s' % (type(sym_out.exc).__name__, type(conc_out.exc).__name__)
        return True, ''
    a = flatten(sym_out.value)
    b = flatten(conc_out.value)
    if set(a) != set(b):
        return False, 'record keys differ: %s' % sorted(set(a) ^ set(b))[:5]
    # cancellation: a value that is exactly 0 in reals carries the rounding noise of the largest magnitudes around
    scale = 1.0
    for v in b.values():
        if isinstance(v, (int, float)) and not isinstance(v, bool) and v == v and abs(v) != math.inf:
            scale = max(scale, abs(v))
    for k in a:
        ok, why = _leaf_equal(a[k], b[k], model, scale, subs)
        if not ok:
            return False, '%s: %s' % (k, why)
    return True, ''


class _FuncMonitor:
    """collect the gearpy functions actually executed (sys.monitoring, each code
    object disabled after its first hit: negligible overhead)"""
    TOOL = 3

    def __init__(self, sink):
        self.sink = sink

    def start(self):
        mon = sys.monitoring
        try:
            mon.use_tool_id(self.TOOL, 'symx')
        except ValueError:
            pass

        def on_start(code, offset):
            fn = code.co_filename
            if '/gearpy/' in fn:
                self.sink.add(fn.split('/gearpy/', 1)[1] + ':' + code.co_qualname)
            return mon.DISABLE
        mon.register_callback(self.TOOL, mon.events.PY_START, on_start)
        mon.set_events(self.TOOL, mon.events.PY_START)

    def stop(self):
        mon = sys.monitoring
        mon.set_events(self.TOOL, 0)
        mon.register_callback(self.TOOL, mon.events.PY_START, None)
        try:
            mon.restart_events()
            mon.free_tool_id(self.TOOL)
        except Exception:  # noqa
            pass


# ----------------------------------------------------------------------------
class Batch:
    """several small harnesses run in one job; results merged"""

    def __init__(self, name, harnesses):
        self.name = name
        self.harnesses = harnesses

    def process(self, want_functions=False):
        return merge_results(self.name, [process(h, want_functions=want_functions) for h in self.harnesses])


def merge_results(name, rs):
    M = dict(harness=name, paths=0, ok_paths=0, exc_paths=0, pruned=0, unsupported=0, domain=0, obligations=0,
             discharged=0, discharged_exact=0, discharged_robust=0, violations=[], inconclusive=[], validated=0,
             validation_boundary=0, triggers={}, samples=[], functions=[], exc_classes={}, stats={}, wall_s=0.0,
             extra={})
    fs = set()
    for R in rs:
        for k in ('paths', 'ok_paths', 'exc_paths', 'pruned', 'unsupported', 'domain', 'obligations',
                  'discharged', 'discharged_exact', 'discharged_robust', 'validated', 'validation_boundary'):
            M[k] += R.get(k, 0)
        M['violations'] += R['violations']
        M['inconclusive'] += ['%s: %s' % (R['harness'], m) for m in R['inconclusive']]
        for k, v in R['triggers'].items():
            M['triggers'][k] = M['triggers'].get(k, 0) + v
        for k, v in R['exc_classes'].items():
            M['exc_classes'][k] = M['exc_classes'].get(k, 0) + v
        if len(M['samples']) < 3:
            M['samples'] += R['samples'][:1]
        fs.update(R['functions'])
        for k, v in R['stats'].items():
            M['stats'][k] = max(M['stats'].get(k, 0), v) if k.startswith('max_') else M['stats'].get(k, 0) + v
        M['wall_s'] += R['wall_s']
        for k, v in (R.get('extra') or {}).items():
            if isinstance(v, (int, float)):
                M['extra'][k] = M['extra'].get(k, 0) + v
            else:
                M['extra'].setdefault(k, [])
                M['extra'][k] = (M['extra'][k] + list(v))[:12]
    M['functions'] = sorted(fs)
    return M
