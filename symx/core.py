"""symx.core -- symbolic execution of real Python code with float-subclass proxies.

R mode: `SR` is a `float` subclass (payload NaN = poison) carrying a z3 Real term.
Every comparison/`bool()` the code under test performs on an SR becomes a
solver-decided fork (`Engine.branch`).  Exploration = decision-list re-execution.

Nothing here knows about gearpy.
"""
from __future__ import annotations

import math
import time
from fractions import Fraction

import z3

NAN = float('nan')


class Abort(BaseException):
    """Path is infeasible / must be abandoned (never visible to code under test)."""


class Unsupported(BaseException):
    """A proxy reached code the engine does not model (C boundary, hashing, int())."""


class Pruned(BaseException):
    """A stated bound (loop count, path budget) was hit on this path."""


class Budget(BaseException):
    """Global exploration budget exhausted."""


# ----------------------------------------------------------------------------
# current engine (one per process; harnesses run single-threaded)
# ----------------------------------------------------------------------------
_E = None
_CROSS_N = 0          # per-process counter of deciding queries (cross-solver sampling)


def engine():
    return _E


def _rat(x):
    """exact rational value of a concrete number as a z3 RealVal"""
    if isinstance(x, bool):
        return z3.RealVal(int(x))
    if isinstance(x, int):
        return z3.RealVal(x)
    if isinstance(x, Fraction):
        return z3.RealVal(x)
    x = float(x) if not isinstance(x, float) else x
    if x != x or x in (math.inf, -math.inf):
        raise Unsupported('non-finite concrete float met symbolic arithmetic: %r' % (x,))
    f = Fraction(float.__float__(x)) if type(x) is not float else Fraction(x)
    return z3.RealVal(f)


def T(x):
    """z3 Real term of a proxy or of a concrete number (ground)."""
    if isinstance(x, SR):
        return x.t
    if isinstance(x, z3.ExprRef):
        return x
    if isinstance(x, Fraction):
        return z3.RealVal(x)
    return _rat(x)


def is_sym(x):
    return isinstance(x, SR)


def _num(x):
    return isinstance(x, (int, float))


class SR(float):
    """symbolic real masquerading as a float; the concrete payload is NaN (poison)."""

    def __new__(cls, term):
        o = float.__new__(cls, NAN)
        o.t = term
        return o

    # -- arithmetic ---------------------------------------------------------
    def __add__(s, o):
        return _mk(s.t + T(o)) if _num(o) else NotImplemented

    def __radd__(s, o):
        return _mk(T(o) + s.t) if _num(o) else NotImplemented

    def __sub__(s, o):
        return _mk(s.t - T(o)) if _num(o) else NotImplemented

    def __rsub__(s, o):
        return _mk(T(o) - s.t) if _num(o) else NotImplemented

    def __mul__(s, o):
        return _mk(s.t * T(o)) if _num(o) else NotImplemented

    def __rmul__(s, o):
        return _mk(T(o) * s.t) if _num(o) else NotImplemented

    def __truediv__(s, o):
        if not _num(o):
            return NotImplemented
        d = T(o)
        if _E.branch(d == 0):
            raise ZeroDivisionError('float division by zero')
        return _mk(s.t / d)

    def __rtruediv__(s, o):
        if not _num(o):
            return NotImplemented
        if _E.branch(s.t == 0):
            raise ZeroDivisionError('float division by zero')
        return _mk(T(o) / s.t)

    def __neg__(s):
        return _mk(-s.t)

    def __pos__(s):
        return s

    def __abs__(s):
        return _mk(z3.If(s.t >= 0, s.t, -s.t))

    def __pow__(s, o, mod=None):
        if isinstance(o, int) and not isinstance(o, SR) and 0 <= o <= 4 and mod is None:
            r = z3.RealVal(1)
            for _ in range(o):
                r = r * s.t
            return _mk(r)
        raise Unsupported('pow with exponent %r' % (o,))

    def __rpow__(s, o):
        raise Unsupported('symbolic exponent')

    # -- comparisons (fork) -------------------------------------------------
    def __lt__(s, o):
        return _E.branch(s.t < T(o)) if _num(o) else NotImplemented

    def __le__(s, o):
        return _E.branch(s.t <= T(o)) if _num(o) else NotImplemented

    def __gt__(s, o):
        return _E.branch(s.t > T(o)) if _num(o) else NotImplemented

    def __ge__(s, o):
        return _E.branch(s.t >= T(o)) if _num(o) else NotImplemented

    def __eq__(s, o):
        if not _num(o):
            return False
        return _E.branch(s.t == T(o))

    def __ne__(s, o):
        if not _num(o):
            return True
        return _E.branch(s.t != T(o))

    def __bool__(s):
        return _E.branch(s.t != 0)

    def __hash__(s):
        raise Unsupported('hash of a symbolic real')

    # -- concretisation is never silent ---------------------------------------
    def __float__(s):
        raise Unsupported('float() of a symbolic real')

    def __int__(s):
        raise Unsupported('int() of a symbolic real')

    __index__ = __trunc__ = __floor__ = __ceil__ = __int__

    def __round__(s, n=None):
        """bounded concretisation: fork on the integer the value rounds to (round-half-even as Python does)"""
        if n is not None:
            raise Unsupported('round(x, n) of a symbolic real')
        t = z3.simplify(s.t)
        if z3.is_rational_value(t):
            return round(Fraction(t.numerator_as_long(), t.denominator_as_long()))
        bound = getattr(_E, 'round_bound', 64)
        order = [0]
        for k in range(1, bound + 1):
            order += [k, -k]
        half = z3.RealVal(Fraction(1, 2))
        for k in order:
            lo, hi = z3.RealVal(k) - half, z3.RealVal(k) + half
            cond = z3.And(t > lo, t < hi)
            if k % 2 == 0:
                cond = z3.Or(cond, t == lo, t == hi)
            if _E.branch(cond):
                return k
        raise Pruned('round() beyond +-%d' % bound)

    def __floordiv__(s, o):
        raise Unsupported('floordiv')

    __rfloordiv__ = __mod__ = __rmod__ = __divmod__ = __rdivmod__ = __floordiv__

    def __repr__(s):
        return '<sym>'

    __str__ = __repr__

    def __format__(s, spec):
        return '<sym>'

    def is_integer(s):
        raise Unsupported('is_integer')

    def __reduce__(s):
        raise Unsupported('pickling a symbolic real')


def _mk(term):
    """build a proxy; fold ground terms back to... still a proxy (keeps exactness)."""
    return SR(term)


def ite(c, a, b):
    """proxy-level if-then-else without forking (c is a z3 Bool)."""
    return SR(z3.If(c, T(a), T(b)))


def smin(*xs):
    if len(xs) == 1:
        xs = tuple(xs[0])
    if not any(isinstance(x, SR) for x in xs):
        return min(*xs)
    r = xs[0]
    for x in xs[1:]:
        r = ite(T(x) < T(r), x, r)
    return r


def smax(*xs):
    if len(xs) == 1:
        xs = tuple(xs[0])
    if not any(isinstance(x, SR) for x in xs):
        return max(*xs)
    r = xs[0]
    for x in xs[1:]:
        r = ite(T(x) > T(r), x, r)
    return r


def sabs(x):
    if isinstance(x, SR):
        return abs(x)
    return math.fabs(x)


def ssqrt(x, on_negative='nan'):
    """sqrt of a proxy: fresh y with y >= 0 and y*y == x; the x < 0 side is a
    domain-event path (numpy returns NaN, math.sqrt raises ValueError)."""
    if not isinstance(x, SR):
        return math.sqrt(x) if on_negative == 'raise' else (math.sqrt(x) if x >= 0 else NAN)
    e = _E
    if e.branch(x.t < 0):
        if on_negative == 'raise':
            raise ValueError('math domain error')
        e.events.append('sqrt_of_negative')
        raise DomainEvent('sqrt of a negative symbolic value (NaN in numpy)')
    # one auxiliary per radicand and path: the same expression evaluated twice (a recorded sample and its
    # recomputation) is the same term, not two unknowns related only through non-linear facts
    memo = getattr(e, '_sqrt_memo', None)
    if memo is None:
        memo = e._sqrt_memo = {}
    key = x.t.get_id()
    if key in memo:
        return SR(memo[key][0])
    y = e.fresh_aux('sqrt')
    e.add_path_fact(z3.And(y >= 0, y * y == x.t))
    memo[key] = (y, x.t)        # the term is kept alive so that its id is not reused
    return SR(y)


class DomainEvent(BaseException):
    """The code under test hit a numeric domain event (e.g. NaN production)."""


# ----------------------------------------------------------------------------
# Environment handed to harnesses: the same harness runs symbolically
# (`SymEnv`) and concretely on plain floats (`ConcEnv`) for replay/validation.
# ----------------------------------------------------------------------------
class SymEnv:
    symbolic = True

    def __init__(self, eng):
        self.eng = eng

    def real(self, name, lo=None, hi=None, lo_open=False, hi_open=False):
        v = self.eng.var(name)
        if lo is not None:
            self.eng.assume((v > _rat(lo)) if lo_open else (v >= _rat(lo)))
        if hi is not None:
            self.eng.assume((v < _rat(hi)) if hi_open else (v <= _rat(hi)))
        return SR(v)

    def assume(self, cond):
        self.eng.assume(cond)

    def choice(self, name, n):
        """symbolic discrete choice 0..n-1 (forks)."""
        v = self.eng.ivar(name)
        self.eng.assume(z3.And(v >= 0, v < n))
        for i in range(n - 1):
            if self.eng.branch(v == i):
                return i
        return n - 1


class ConcEnv:
    symbolic = False

    def __init__(self, values, choices=None):
        self.values = values
        self.choices = choices or {}
        self.violated_assumption = None

    def real(self, name, lo=None, hi=None, lo_open=False, hi_open=False):
        v = float(self.values.get(name, 0.0))
        ok = True
        if lo is not None:
            ok = ok and ((v > lo) if lo_open else (v >= lo))
        if hi is not None:
            ok = ok and ((v < hi) if hi_open else (v <= hi))
        if not ok:
            self.violated_assumption = 'bounds of %s' % name
        return v

    def assume(self, cond):
        c = z3.simplify(cond) if isinstance(cond, z3.ExprRef) else cond
        if isinstance(c, z3.ExprRef):
            if z3.is_false(c):
                self.violated_assumption = str(cond)[:80]
        elif not c:
            self.violated_assumption = 'assumption'

    def choice(self, name, n):
        return int(self.choices.get(name, self.values.get(name, 0)))


# ----------------------------------------------------------------------------
class PathResult:
    __slots__ = ('decisions', 'path', 'status', 'value', 'exc', 'model', 'events', 'facts')

    def __init__(self, decisions, path, status, value=None, exc=None, model=None, events=(), facts=()):
        self.decisions = decisions
        self.path = path
        self.status = status      # ok | exc | pruned | unsupported | domain
        self.value = value
        self.exc = exc
        self.model = model
        self.events = list(events)
        self.facts = list(facts)

    def __repr__(self):
        return 'PathResult(%s, %d decisions)' % (self.status, len(self.decisions))


class Engine:
    def __init__(self, timeout_ms=60000, max_paths=20000, max_seconds=None, seed=0):
        self.timeout_ms = timeout_ms
        self.max_paths = max_paths
        self.max_seconds = max_seconds
        self.seed = seed
        self.stats = dict(paths=0, queries=0, solver_s=0.0, unknown=0, branches=0,
                          infeasible=0)
        self._vars = {}
        self._aux = 0
        self.eager_facts = False
        self.assumptions = []
        self.events = []

    # -- variables ------------------------------------------------------------
    def var(self, name):
        v = self._vars.get(name)
        if v is None:
            v = self._vars[name] = z3.Real(name)
        return v

    def ivar(self, name):
        v = self._vars.get(name)
        if v is None:
            v = self._vars[name] = z3.Int(name)
        return v

    def fresh_aux(self, kind):
        self._path_aux += 1
        return self.var('aux_%s_%d' % (kind, self._path_aux))

    def assume(self, cond):
        """assumption made by the harness while running; idempotent per path."""
        cid = cond.get_id()
        if cid in self._assumed:
            return
        self._assumed.add(cid)
        self.path_assumptions.append(cond)
        self.solver.add(cond)
        if self.model is not None:
            v = self.model.eval(cond, model_completion=True)
            if not z3.is_true(v):
                self.model = None

    def add_path_fact(self, cond):
        """a defining fact for an auxiliary variable (part of the path)."""
        # kept out of the feasibility solver on purpose (it would make every later query nonlinear): the
        # auxiliary variable never feeds a branch condition unless the harness says so; obligations are decided
        # with the facts included (PathResult.path)
        self.facts.append(cond)
        if self.eager_facts:
            self.solver.add(cond)
            self.model = None

    # -- solver ---------------------------------------------------------------
    def _check(self, *extra):
        t = time.time()
        r = self.solver.check(*extra)
        dt_ = time.time() - t
        self.stats['solver_s'] += dt_
        self.stats['max_query_s'] = max(self.stats.get('max_query_s', 0.0), dt_)
        self.stats['queries'] += 1
        if r == z3.unknown:
            self.stats['unknown'] += 1
        return r

    def _start_path(self, decisions, model):
        self.decisions = list(decisions)
        self.pos = 0
        self.path = []
        self.facts = []
        self.events = []
        self.known = {}
        self._assumed = set()
        self.path_assumptions = []
        self._path_aux = 0
        self._sqrt_memo = {}
        self.model = model
        self.solver = z3.Solver()
        self.solver.set('timeout', self.timeout_ms)
        self.solver.set('random_seed', self.seed)
        for a in self.assumptions:
            self.solver.add(a)

    def _ensure_model(self):
        if self.model is None:
            r = self._check()
            if r == z3.sat:
                self.model = self.solver.model()
            elif r == z3.unsat:
                self.stats['infeasible'] += 1
                raise Abort('infeasible path')
        return self.model

    def branch(self, cond):
        cond = z3.simplify(cond)
        if z3.is_true(cond):
            return True
        if z3.is_false(cond):
            return False
        cid = cond.get_id()
        d = self.known.get(cid)
        if d is not None:
            return d
        self.stats['branches'] += 1
        if self.pos < len(self.decisions):
            d = self.decisions[self.pos]
            if self.pos == len(self.decisions) - 1 and self.model is not None:
                # model handed over by the parent path must satisfy the flipped decision
                pass
        else:
            if self.max_seconds is not None and time.time() - self._t0 > self.max_seconds:
                raise Budget('time budget')
            m = self._ensure_model()
            d_model = None
            if m is not None:
                v = m.eval(cond, model_completion=True)
                if z3.is_true(v):
                    d_model = True
                elif z3.is_false(v):
                    d_model = False
            if d_model is None:
                rt = self._check(cond)
                rf = self._check(z3.Not(cond))
                t_ok, f_ok = rt != z3.unsat, rf != z3.unsat
                if t_ok and f_ok:
                    self.worklist.append((self.decisions[:self.pos] + [False], None))
                    d = True
                    self.model = None
                elif t_ok:
                    d = True
                elif f_ok:
                    d = False
                else:
                    self.stats['infeasible'] += 1
                    raise Abort('infeasible path')
            else:
                other = z3.Not(cond) if d_model else cond
                r = self._check(other)
                if r != z3.unsat:
                    om = None
                    if r == z3.sat:
                        om = self.solver.model()
                    self.worklist.append((self.decisions[:self.pos] + [not d_model], om))
                d = d_model
            self.decisions.append(d)
        self.pos += 1
        c = cond if d else z3.Not(cond)
        self.path.append(c)
        self.solver.add(c)
        self.known[cid] = d
        return d

    # -- exploration ------------------------------------------------------------
    def explore(self, fn, assumptions=(), on_path=None):
        """fn(env) runs the real code once per path.  Returns list[PathResult].
        `on_path(result)` (optional) is called right after each completed path
        while its solver state is alive (so that obligations can be discharged
        incrementally with `self.solver`)."""
        global _E
        prev = _E
        _E = self
        self.assumptions = list(assumptions)
        self.worklist = [([], None)]
        self._t0 = time.time()
        out = []
        env = SymEnv(self)
        self.exhausted = True
        try:
            while self.worklist:
                if self.stats['paths'] >= self.max_paths or (
                        self.max_seconds is not None and time.time() - self._t0 > self.max_seconds):
                    self.exhausted = False
                    break
                dec, model = self.worklist.pop()
                self._start_path(dec, model)
                try:
                    val = fn(env)
                    res = PathResult(self.decisions, list(self.path), 'ok', value=val)
                except Abort:
                    continue
                except Budget:
                    self.exhausted = False
                    break
                except Pruned as e:
                    res = PathResult(self.decisions, list(self.path), 'pruned', exc=e)
                except Unsupported as e:
                    res = PathResult(self.decisions, list(self.path), 'unsupported', exc=e)
                except DomainEvent as e:
                    res = PathResult(self.decisions, list(self.path), 'domain', exc=e)
                except Exception as e:  # noqa  (the code under test raised)
                    res = PathResult(self.decisions, list(self.path), 'exc', exc=e)
                if self.pos < len(self.decisions):
                    # replay diverged: harness is not deterministic
                    raise RuntimeError('non-deterministic harness: %d decisions unused'
                                       % (len(self.decisions) - self.pos))
                res.events = list(self.events)
                res.facts = list(self.facts)
                res.path = list(self.path_assumptions) + res.facts + res.path
                self.stats['paths'] += 1
                # model of the complete path (also proves feasibility)
                try:
                    res.model = self._ensure_model()
                except Abort:
                    self.stats['paths'] -= 1
                    continue
                out.append(res)
                if on_path is not None:
                    on_path(res)
        finally:
            _E = prev
        return out

    # -- deciding ---------------------------------------------------------------
    def decide(self, res, formula, timeout_ms=None):
        """Is `formula` valid on path `res` (under the assumptions)?
        returns ('unsat', None) = valid, ('sat', model) = counterexample, ('unknown', None)"""
        s = z3.Solver()
        s.set('timeout', timeout_ms or self.timeout_ms)
        s.set('random_seed', self.seed)
        for a in self.assumptions:
            s.add(a)
        for c in res.path:
            s.add(c)
        s.add(z3.Not(formula))
        t = time.time()
        r = s.check()
        dt_ = time.time() - t
        self.stats['solver_s'] += dt_
        self.stats['max_query_s'] = max(self.stats.get('max_query_s', 0.0), dt_)
        self.stats['queries'] += 1
        self._cross_check(s, r)
        if r == z3.sat:
            return 'sat', s.model()
        if r == z3.unsat:
            return 'unsat', None
        self.stats['unknown'] += 1
        return 'unknown', None

    def _cross_check(self, solver, verdict):
        """diff two solvers: every `cross_every`-th deciding query is re-decided by the cvc5 binary on the SMT-LIB dump"""
        n = getattr(self, 'cross_every', 0)
        if not n or verdict == z3.unknown:
            return
        global _CROSS_N
        _CROSS_N += 1
        if _CROSS_N % n:
            return
        import os
        import shutil
        import subprocess
        import tempfile
        exe = shutil.which('cvc5')
        if not exe:
            return
        fd, path = tempfile.mkstemp(suffix='.smt2', prefix='symx_x_')
        try:
            with os.fdopen(fd, 'w') as f:
                f.write('(set-logic ALL)\n' + solver.to_smt2())
            try:
                out = subprocess.run([exe, '--tlimit=8000', path], capture_output=True, text=True, timeout=12).stdout.strip()
            except subprocess.TimeoutExpired:
                out = 'timeout'
        finally:
            if os.path.exists(path):
                os.unlink(path)
        first = out.split('\n', 1)[0].strip() if out else ''
        mine = 'sat' if verdict == z3.sat else 'unsat'
        if first in ('sat', 'unsat'):
            key = 'cross_agree' if first == mine else 'cross_disagree'
        else:
            key = 'cross_undecided'
        self.stats[key] = self.stats.get(key, 0) + 1

    def sat_with(self, res, formula, timeout_ms=None):
        """Is path /\\ formula satisfiable? (reachability / trigger witness)"""
        r, m = self.decide(res, z3.Not(formula), timeout_ms)
        return r, m


# ----------------------------------------------------------------------------
# model -> concrete doubles
# ----------------------------------------------------------------------------
def model_value(m, v):
    x = m.eval(v, model_completion=True)
    if z3.is_int_value(x):
        return x.as_long()
    if z3.is_rational_value(x):
        return Fraction(x.numerator_as_long(), x.denominator_as_long())
    if z3.is_algebraic_value(x):
        a = x.approx(30)
        return Fraction(a.numerator_as_long(), a.denominator_as_long())
    raise ValueError('cannot read model value %s' % x)


def model_to_floats(eng, m):
    out = {}
    for name, v in eng._vars.items():
        try:
            val = model_value(m, v)
        except ValueError:
            continue
        out[name] = int(val) if isinstance(val, int) else float(val)
    return out


def eval_term(m, term):
    """exact value (Fraction) of a term under model m"""
    return model_value(m, term)


# ----------------------------------------------------------------------------
# interior model: prefer a model where non-strict path atoms hold strictly, so
# that the float replay of the model follows the same path.
# ----------------------------------------------------------------------------
def _strict(c):
    k = c.decl().kind()
    if k == z3.Z3_OP_LE:
        return c.arg(0) < c.arg(1)
    if k == z3.Z3_OP_GE:
        return c.arg(0) > c.arg(1)
    if k == z3.Z3_OP_NOT:
        a = c.arg(0)
        ka = a.decl().kind()
        if ka == z3.Z3_OP_LT:      # not(a<b) == a>=b -> a>b
            return a.arg(0) > a.arg(1)
        if ka == z3.Z3_OP_GT:
            return a.arg(0) < a.arg(1)
    return c


def has_equality_atom(path):
    for c in path:
        k = c.decl().kind()
        if k == z3.Z3_OP_EQ:
            return True
    return False


def _sides(c):
    """(smaller, larger) sides of a strict/non-strict comparison atom, or None"""
    k = c.decl().kind()
    if k in (z3.Z3_OP_LE, z3.Z3_OP_LT):
        return c.arg(0), c.arg(1)
    if k in (z3.Z3_OP_GE, z3.Z3_OP_GT):
        return c.arg(1), c.arg(0)
    if k == z3.Z3_OP_NOT:
        a = c.arg(0)
        ka = a.decl().kind()
        if ka in (z3.Z3_OP_LE, z3.Z3_OP_LT):
            return a.arg(1), a.arg(0)
        if ka in (z3.Z3_OP_GE, z3.Z3_OP_GT):
            return a.arg(0), a.arg(1)
    return None


def _addend_magnitude(m, term, depth=0):
    """largest |addend| of a (nested) sum under the model: a side such as 1000*cur - 1000*thr carries the rounding noise
    of its addends, not of its (cancelled) value"""
    if depth < 4 and z3.is_app(term) and term.decl().kind() in (z3.Z3_OP_ADD, z3.Z3_OP_SUB) and term.num_args() > 1:
        return max(_addend_magnitude(m, term.arg(i), depth + 1) for i in range(term.num_args()))
    return abs(model_value(m, term))


def _min_rel_slack(m, atoms):
    worst = None
    for c in atoms:
        sd = _sides(c)
        if sd is None:
            continue
        try:
            lo, hi = model_value(m, sd[0]), model_value(m, sd[1])
            sc = max(_addend_magnitude(m, sd[0]), _addend_magnitude(m, sd[1]), Fraction(1, 10**9))
        except ValueError:
            continue
        rel = (hi - lo) / sc
        if worst is None or rel < worst:
            worst = rel
    return worst


def interior_model(eng, res, extra=(), timeout_ms=5000, margin=Fraction(1, 10**6)):
    """a model of the path that lies well inside every inequality atom (relative slack >= margin),
    so that the float replay of the model follows the same path.  returns (model, is_interior)"""
    norm = [z3.simplify(c) for c in res.path]
    atoms = [_strict(c) for c in norm]
    if has_equality_atom(norm):
        return res.model, False
    s = z3.Solver()
    s.set('timeout', timeout_ms)
    for a in eng.assumptions:
        s.add(a)
    for c in atoms:
        s.add(c)
    for c in extra:
        s.add(c)
    # prefer a non-degenerate model (no variable zero, all distinct): zeros hide differences between proxy and implementation
    s.push()
    rv = [v for v in eng._vars.values() if z3.is_real(v)]
    for v in rv:
        s.add(v != 0)
    if len(rv) > 1:
        s.add(z3.Distinct(*rv))
    if s.check() == z3.sat:
        m = s.model()
    else:
        s.pop()
        s.push()
        if s.check() != z3.sat:
            return res.model, False
        m = s.model()
    for attempt in range(3):
        w = _min_rel_slack(m, atoms)
        if w is None or w >= margin:
            return m, True
        # push every atom away from its boundary by a margin scaled with the current model
        s.push()
        for c in atoms:
            sd = _sides(c)
            if sd is None:
                continue
            try:
                sc = max(_addend_magnitude(m, sd[0]), _addend_magnitude(m, sd[1]), Fraction(1, 1000))
            except ValueError:
                continue
            s.add(sd[1] - sd[0] >= z3.RealVal(sc * margin * 100))
        r = s.check()
        if r != z3.sat:
            s.pop()
            return m, False
        m = s.model()
        s.pop()
    w = _min_rel_slack(m, atoms)
    return m, (w is None or w >= margin)
