"""Obligations: named z3 formulas over recorded terms, with an exact and a robust
(relative-tolerance) reading.  On ground (concrete replay) records the robust
reading is evaluated numerically (exact rational arithmetic) with a loosened
tolerance, so that only discrepancies that survive float replay are reported."""
from __future__ import annotations

from fractions import Fraction

import z3

from .core import T


def zabs(a):
    return z3.If(a >= 0, a, -a)


def zmax(a, b):
    return z3.If(a >= b, a, b)


def _q(x):
    return z3.RealVal(Fraction(x))


def close(a, b, tol=1e-9, atol=0.0, scale=None):
    """|a-b| <= tol*max(|a|,|b|[,|scale_i|...]) + atol   (z3 Bool).  `scale`: extra magnitudes the
    error is relative to (operands of a sum/difference: cancellation makes the
    result arbitrarily smaller than the rounding error of its operands)"""
    a, b = T(a), T(b)
    d = a - b
    mx = zmax(zabs(a), zabs(b))
    for sc in (scale or ()):
        mx = zmax(mx, zabs(T(sc)))
    m = _q(tol) * mx + _q(atol)
    return z3.And(d <= m, -d <= m)


class Ob:
    __slots__ = ('name', 'exact', 'robust', 'trigger', 'info', 'eqdata', 'prefer_robust')

    def __init__(self, name, exact, robust=None, trigger=None, info=None, eqdata=None):
        self.name = name
        self.exact = exact
        self.robust = exact if robust is None else robust
        self.trigger = trigger
        self.info = info
        self.eqdata = eqdata
        self.prefer_robust = False

    @property
    def family(self):
        return self.name.split('[')[0]

    def first(self):
        """formula tried first (exact unless the obligation is known to hold only up to rounding)"""
        return self.formula(robust=self.prefer_robust)

    def formula(self, robust=False, loosen=1):
        if robust and self.eqdata is not None and loosen != 1:
            a, b, tol, atol, scale = self.eqdata
            f = close(a, b, tol * loosen, atol * loosen, scale)
        else:
            f = self.robust if robust else self.exact
        if self.trigger is not None:
            return z3.Implies(self.trigger, f)
        return f


def eq(name, a, b, tol=1e-9, atol=0.0, trigger=None, info=None, scale=None, prefer_robust=False):
    a, b = T(a), T(b)
    o = Ob(name, a == b, close(a, b, tol, atol, scale), trigger, info, eqdata=(a, b, tol, atol, scale))
    o.prefer_robust = prefer_robust
    return o


def holds(name, cond, trigger=None, info=None):
    if isinstance(cond, bool):
        cond = z3.BoolVal(cond)
    return Ob(name, cond, cond, trigger, info)


def ground_true(f):
    """evaluate a ground formula; returns True/False/None(undecided)"""
    s = z3.simplify(f)
    if z3.is_true(s):
        return True
    if z3.is_false(s):
        return False
    sol = z3.Solver()
    sol.set('timeout', 5000)
    sol.add(z3.Not(f))
    r = sol.check()
    if r == z3.unsat:
        return True
    if r == z3.sat:
        return False
    return None
