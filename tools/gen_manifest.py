#!/usr/bin/env python3
"""Regenerates /verif/MANIFEST.json from the props modules' MANIFEST metadata."""
import importlib, json, os, sys
V = os.path.dirname(os.path.dirname(os.path.abspath(__file__)))
sys.path.insert(0, V); sys.path.insert(0, '/repo')
props = [json.loads(l) for l in open(os.path.join(V, 'properties.jsonl'))]
NA_FILE = os.path.join(V, 'tools', 'not_applicable.json')
na_reasons = json.load(open(NA_FILE)) if os.path.exists(NA_FILE) else {}
checks, na = [], []
for p in props:
    pid = p['id']
    path = os.path.join(V, 'props', pid.lower() + '.py')
    if not os.path.exists(path) or pid in na_reasons:
        na.append(dict(property_id=pid, reason=na_reasons.get(pid, 'check not built yet in this session; planned as described in DESIGN.md section 5')))
        continue
    m = importlib.import_module('props.' + pid.lower())
    M = m.MANIFEST
    c = dict(property_id=pid,
             quick_cmd='./check %s --tier quick' % pid,
             thorough_cmd='./check %s --tier thorough' % pid,
             evidence_file='/verif/evidence/%s.json' % pid,
             replay_cmd_template='./check %s --replay {path}' % pid,
             engine='symx',
             level_claimed=dict(category='model_checking', text=M['level_text'], design_ref=M.get('design_ref', 'DESIGN.md')),
             level_note=M['level_note'], technique=M['technique'])
    checks.append(c)
man = dict(
    version=1,
    setup_cmd='./setup.sh',
    hooks=dict(guard='GEARPY_VERIF', enable='no source hooks: the checks patch names in gearpy module namespaces from the harness process (symx/stubs.py)',
               baseline_off_cmd='cd /repo && /venv/bin/python -m pytest -q -p no:cacheprovider --timeout=900', source_commits=[], add_only=True),
    engines=[dict(name='symx', path='/verif/symx', serves_properties=[c['property_id'] for c in checks],
                  kind_free_text='symbolic execution of the real gearpy source in its own interpreter: float-subclass proxies carrying z3 Real (or Float64) terms, decision-list re-execution, z3 verdict per path, concrete replay on the unpatched library')],
    checks=checks,
    notes='Exit 0 = held on everything explored (KNOWN-FINDING lines announce recorded defects); exit 1 + VIOLATION line = reproduced violation; exit 2 = inconclusive (never a pass).',
    not_applicable=na,
)
json.dump(man, open(os.path.join(V, 'MANIFEST.json'), 'w'), indent=1)
print('checks:', [c['property_id'] for c in checks]); print('n/a:', [n['property_id'] for n in na])
