#!/bin/sh
# Offline setup: overlay venv on top of /venv (repo deps) + z3/cvc5/jsonschema from the wheelhouse.
set -e
cd "$(dirname "$0")"
if [ ! -x .venv/bin/python ] || ! .venv/bin/python -c "import z3, cvc5, jsonschema, numpy, scipy, pandas" 2>/dev/null; then
  rm -rf .venv
  /venv/bin/python -m venv .venv
  SP=$(.venv/bin/python -c "import sysconfig; print(sysconfig.get_paths()['purelib'])")
  printf '/venv/lib/python3.12/site-packages\n' > "$SP/zz_base_venv.pth"
  PIP_NO_INDEX=1 .venv/bin/python -m pip install -q --no-index --find-links /opt/veriftools/wheels z3-solver cvc5 jsonschema
fi
.venv/bin/python -c "import z3, cvc5, jsonschema, numpy, scipy, pandas; print('setup ok: z3', z3.get_version_string())"
